"""Collider shapes, independent of the library: construction of the real
collider objects from a spec + pose, membership predicates and support values
in the shape's local frame (polymorphic: floats or SymReals)."""
from symx.harness import AND, OR, NOT, DOT, SUB, ADD, SCALE, CROSS, NORM2, ABS, SQRT, ITE, MAX, MIN, close

# corpus meshes (vertices dyadic; triangles wound outwards, as make_convex_mesh produces)
TETRA_V = [[1.0, 1.0, 1.0], [1.0, -1.0, -1.0], [-1.0, 1.0, -1.0], [-1.0, -1.0, 1.0]]
TETRA_T = [[0, 1, 2], [0, 3, 1], [0, 2, 3], [1, 3, 2]]
CUBE_V = [[x, y, z] for x in (-0.5, 0.5) for y in (-0.5, 0.5) for z in (-0.5, 0.5)]
CUBE_T = [[0, 1, 3], [0, 3, 2], [4, 6, 7], [4, 7, 5], [0, 4, 5], [0, 5, 1],
          [2, 3, 7], [2, 7, 6], [0, 2, 6], [0, 6, 4], [1, 5, 7], [1, 7, 3]]
OCTA_V = [[1.0, 0.0, 0.0], [-1.0, 0.0, 0.0], [0.0, 0.5, 0.0], [0.0, -0.5, 0.0], [0.0, 0.0, 2.0], [0.0, 0.0, -2.0]]
OCTA_T = [[0, 2, 4], [2, 1, 4], [1, 3, 4], [3, 0, 4], [2, 0, 5], [1, 2, 5], [3, 1, 5], [0, 3, 5]]


def _orient(V, T):
    """Wind every triangle counter-clockwise seen from outside (origin is strictly inside)."""
    out = []
    for i, j, k in T:
        a, b, c = V[i], V[j], V[k]
        n = [(b[1] - a[1]) * (c[2] - a[2]) - (b[2] - a[2]) * (c[1] - a[1]),
             (b[2] - a[2]) * (c[0] - a[0]) - (b[0] - a[0]) * (c[2] - a[2]),
             (b[0] - a[0]) * (c[1] - a[1]) - (b[1] - a[1]) * (c[0] - a[0])]
        off = n[0] * a[0] + n[1] * a[1] + n[2] * a[2]
        assert off != 0
        out.append([i, j, k] if off > 0 else [i, k, j])
    return out


# a convex mesh whose vertex 0 is an interior point of the cloud, referenced by no triangle
# (what make_convex_mesh returns for a point cloud with interior points)
TETRA_IN_V = [[0.0, 0.0, 0.0]] + TETRA_V
TETRA_IN_T = [[i + 1 for i in tri] for tri in _orient(TETRA_V, TETRA_T)]


def _mixed(T):
    """Arbitrary winding / vertex order inside the triangles (what raw scipy ConvexHull.simplices give);
    allowed for MeshGraph, whose support function must not depend on it."""
    out = []
    for n, (i, j, k) in enumerate(T):
        out.append([[i, j, k], [k, j, i], [j, i, k], [k, i, j]][n % 4])
    return out


# cuboctahedron: 12 vertices (only 6 of them are the axis extremes used as hill-climbing shortcuts), triangles exactly as
# scipy.spatial.ConvexHull(...).simplices returns them (arbitrary winding and vertex order)
CUBOCTA_V = [[-1.0, -1.0, 0.0], [-1.0, 0.0, -1.0], [0.0, -1.0, -1.0], [-1.0, 1.0, 0.0], [-1.0, 0.0, 1.0], [0.0, -1.0, 1.0],
             [1.0, -1.0, 0.0], [1.0, 0.0, -1.0], [0.0, 1.0, -1.0], [1.0, 1.0, 0.0], [1.0, 0.0, 1.0], [0.0, 1.0, 1.0]]
CUBOCTA_T = [[8, 1, 3], [2, 1, 0], [2, 7, 6], [5, 4, 0], [9, 8, 7], [11, 4, 3], [10, 5, 6], [10, 11, 9], [4, 1, 0], [4, 1, 3],
             [2, 8, 7], [2, 8, 1], [5, 2, 0], [5, 2, 6], [11, 8, 3], [11, 9, 8], [10, 9, 7], [10, 7, 6], [10, 11, 4], [10, 5, 4]]
# a mesh whose vertex centroid is not the origin of the mesh frame (the origin is still strictly inside)
TETRA_OFF_V = [[v[0] + 0.25, v[1] + 0.125, v[2] - 0.125] for v in TETRA_V]
# a mesh whose frame origin lies far outside the mesh (scanned / exported meshes are rarely centred): a pose error
# that a nearly centred mesh hides (rotation applied to the vertex mean the wrong way round) moves center() out of it
TETRA_FAR_V = [[v[0] + 3.0, v[1] + 1.0, v[2] - 2.0] for v in TETRA_V]
MESHES = {"tetra": (TETRA_V, _orient(TETRA_V, TETRA_T)), "cube": (CUBE_V, _orient(CUBE_V, CUBE_T)),
          "tetra_off": (TETRA_OFF_V, _orient(TETRA_OFF_V, TETRA_T)),
          "tetra_far": (TETRA_FAR_V, _orient(TETRA_V, TETRA_T)),
          "cubocta_raw": (CUBOCTA_V, CUBOCTA_T),
          "octa": (OCTA_V, _orient(OCTA_V, OCTA_T)), "tetra_in": (TETRA_IN_V, TETRA_IN_T),
          "octa_mixed": (OCTA_V, _mixed(_orient(OCTA_V, OCTA_T))), "cube_mixed": (CUBE_V, _mixed(_orient(CUBE_V, CUBE_T)))}


def transpose(A):
    return [[A[j][i] for j in range(len(A))] for i in range(len(A[0]))]


def matvec(M, v):
    return [DOT(r, v) for r in M]


def pose_rows(R, t):
    return [[R[0][0], R[0][1], R[0][2], t[0]], [R[1][0], R[1][1], R[1][2], t[1]],
            [R[2][0], R[2][1], R[2][2], t[2]], [0.0, 0.0, 0.0, 1.0]]


def to_local(R, t, p):
    return matvec(transpose(R), SUB(list(p), t))


def radical_eq(v, k2, s2, tol):
    """v ~ sqrt(k2*s2) within tol (squared form, no radical needed)."""
    if tol == 0.0:
        return AND(v >= 0, v * v == k2 * s2)
    return AND(v + tol >= 0, (v + tol) * (v + tol) >= k2 * s2, OR(v - tol <= 0, (v - tol) * (v - tol) <= k2 * s2))


def radical_ge(v, k2, s2, tol):
    """v >= sqrt(k2*s2) - tol"""
    return AND(v + tol >= 0, (v + tol) * (v + tol) >= k2 * s2)


class Shape:
    def __init__(self, spec):
        self.spec = spec
        self.type = spec["type"]

    # ---- real collider object
    def make(self, C, cx, R, t):
        s, T = self.spec, self.type
        pose = cx.arr(pose_rows(R, t))
        if T == "sphere":
            return C.Sphere(cx.arr(t), s["radius"])
        if T == "ellipsoid":
            return C.Ellipsoid(pose, cx.arr(s["radii"]))
        if T == "capsule":
            return C.Capsule(pose, s["radius"], s["height"])
        if T == "cylinder":
            return C.Cylinder(pose, s["radius"], s["length"])
        if T == "cone":
            return C.Cone(pose, s["radius"], s["height"])
        if T == "box":
            return C.Box(pose, cx.arr(s["size"]))
        if T == "disk":
            return C.Disk(cx.arr(t), s["radius"], cx.arr([R[0][2], R[1][2], R[2][2]]))
        if T == "ellipse":
            return C.Ellipse(cx.arr(t), cx.arr([[R[0][0], R[1][0], R[2][0]], [R[0][1], R[1][1], R[2][1]]]),
                             cx.arr(s["radii"]))
        if T == "mesh":
            V, Tr = MESHES[s["mesh"]]
            import numpy as np
            return C.MeshGraph(pose, cx.arr(V), np.array(Tr, dtype=int))
        if T == "hull":
            V = self.world_vertices(R, t)
            return C.ConvexHullVertices(cx.arr(V))
        if T == "margin":
            inner = Shape(s["inner"]).make(C, cx, R, t)
            return C.Margin(inner, s["margin"])
        raise KeyError(T)

    def local_vertices(self):
        s = self.spec
        if self.type in ("mesh", "hull"):
            return MESHES[s["mesh"]][0] + ([MESHES[s["mesh"]][0][0]] if s.get("dup") else [])
        if self.type == "box":
            h = [0.5 * x for x in s["size"]]
            return [[sx * h[0], sy * h[1], sz * h[2]] for sx in (-1, 1) for sy in (-1, 1) for sz in (-1, 1)]
        return None

    def world_vertices(self, R, t):
        return [ADD(matvec(R, v), t) for v in self.local_vertices()]

    def size_scale(self):
        s = self.spec
        vals = [1.0]
        for k in ("radius", "length", "height", "margin"):
            if k in s:
                vals.append(float(s[k]))
        for k in ("radii", "size"):
            if k in s:
                vals.extend(float(x) for x in s[k])
        if "mesh" in s:
            vals.append(2.0)
        if "inner" in s:
            vals.append(Shape(s["inner"]).size_scale())
        return max(vals)

    # ---- membership in the local frame
    def member(self, q, tol):
        s, T = self.spec, self.type
        x, y, z = q
        if T == "sphere":
            r = s["radius"] + tol
            return NORM2(q) <= r * r
        if T == "ellipsoid":
            a, b, c = [r + tol for r in s["radii"]]
            return x * x / (a * a) + y * y / (b * b) + z * z / (c * c) <= 1.0
        if T == "capsule":
            hh = 0.5 * s["height"]
            u = MIN(MAX(z, -hh), hh)
            r = s["radius"] + tol
            return x * x + y * y + (z - u) * (z - u) <= r * r
        if T == "cylinder":
            r = s["radius"] + tol
            return AND(ABS(z) <= 0.5 * s["length"] + tol, x * x + y * y <= r * r)
        if T == "cone":
            h, r = s["height"], s["radius"]
            # 0 <= z <= h and sqrt(x^2+y^2) <= r (1 - z/h)   (inflated by tol)
            k = r * (1.0 - z / h) + tol
            return AND(z >= -tol, z <= h + tol, OR(x * x + y * y <= tol * tol, AND(k >= 0, x * x + y * y <= k * k)))
        if T == "box":
            return AND(*[ABS(c) <= 0.5 * sz + tol for c, sz in zip(q, s["size"])])
        if T == "disk":
            r = s["radius"] + tol
            return AND(ABS(z) <= tol, x * x + y * y <= r * r)
        if T == "ellipse":
            a, b = [r + tol for r in s["radii"]]
            return AND(ABS(z) <= tol, x * x / (a * a) + y * y / (b * b) <= 1.0)
        if T in ("mesh", "hull"):
            # the library returns vertices; any point of the hull is fine: facet test
            return self.in_hull(q, tol)
        raise KeyError(T)

    def facets(self):
        """(normal, offset) of the hull facets, computed concretely from the corpus mesh."""
        V, Tr = MESHES[self.spec["mesh"]]
        out = []
        g = [sum(v[k] for v in V) / len(V) for k in range(3)]        # an interior point: the vertex centroid
        for i, j, k in Tr:
            a, b, c = V[i], V[j], V[k]
            n = CROSS(SUB(b, a), SUB(c, a))
            off = DOT(n, a)
            if DOT(n, SUB(a, g)) < 0:          # normal pointing towards the interior: flip
                n, off = [-x for x in n], -off
            out.append((n, off))
        return out

    def in_hull(self, q, tol):
        conds = []
        for n, off in self.facets():
            nn = sum(c * c for c in n) ** 0.5
            conds.append(DOT(n, q) <= off + tol * nn)
        return AND(*conds)

    # ---- support value: condition that `val` equals h(dl) within tol
    def support_is(self, val, dl, tol):
        s, T = self.spec, self.type
        dx, dy, dz = dl
        if T == "sphere":
            return radical_eq(val, s["radius"] ** 2, NORM2(dl), tol)
        if T == "ellipsoid":
            a, b, c = s["radii"]
            return radical_eq(val, 1.0, (a * dx) * (a * dx) + (b * dy) * (b * dy) + (c * dz) * (c * dz), tol)
        if T == "capsule":
            return radical_eq(val - 0.5 * s["height"] * ABS(dz), s["radius"] ** 2, NORM2(dl), tol)
        if T == "cylinder":
            return radical_eq(val - 0.5 * s["length"] * ABS(dz), s["radius"] ** 2, dx * dx + dy * dy, tol)
        if T == "cone":
            r2, s2, B = s["radius"] ** 2, dx * dx + dy * dy, s["height"] * dz
            return AND(val >= B - tol, radical_ge(val, r2, s2, tol),
                       OR(close(val, B, tol) if tol else val == B, radical_eq(val, r2, s2, tol)))
        if T == "box":
            h = 0.0
            for c, sz in zip(dl, s["size"]):
                h = h + 0.5 * sz * ABS(c)
            return close(val, h, tol) if tol else val == h
        if T == "disk":
            return radical_eq(val, s["radius"] ** 2, dx * dx + dy * dy, tol)
        if T == "ellipse":
            a, b = s["radii"]
            return radical_eq(val, 1.0, (a * dx) * (a * dx) + (b * dy) * (b * dy), tol)
        if T in ("mesh", "hull"):
            projs = [DOT(v, dl) for v in self.local_vertices()]
            return AND(AND(*[val >= p - tol for p in projs]), OR(*[val <= p + tol for p in projs]))
        raise KeyError(T)


CORPUS = [
    {"type": "sphere", "radius": 0.5},
    {"type": "ellipsoid", "radii": [1.0, 0.5, 2.0]},
    {"type": "capsule", "radius": 0.5, "height": 2.0},
    {"type": "cylinder", "radius": 0.5, "length": 2.0},
    {"type": "cone", "radius": 0.5, "height": 2.0},
    {"type": "box", "size": [1.0, 0.5, 2.0]},
    {"type": "disk", "radius": 1.0},
    {"type": "ellipse", "radii": [1.0, 0.5]},
    {"type": "mesh", "mesh": "tetra"},
    {"type": "mesh", "mesh": "octa"},
    {"type": "hull", "mesh": "cube"},
    {"type": "hull", "mesh": "octa", "dup": True},
    {"type": "mesh", "mesh": "tetra_in"},
    {"type": "mesh", "mesh": "octa_mixed"},
    {"type": "mesh", "mesh": "cubocta_raw"},
    {"type": "mesh", "mesh": "tetra_off"},
]
CORPUS_MORE = [
    {"type": "sphere", "radius": 100.0},
    {"type": "ellipsoid", "radii": [0.25, 0.25, 0.25]},
    {"type": "capsule", "radius": 0.015625, "height": 64.0},
    {"type": "cylinder", "radius": 2.0, "length": 0.25},
    {"type": "cone", "radius": 2.0, "height": 0.5},
    {"type": "box", "size": [0.015625, 1.0, 64.0]},
    {"type": "ellipse", "radii": [0.25, 4.0]},
    {"type": "mesh", "mesh": "cube"},
    {"type": "hull", "mesh": "tetra"},
    {"type": "mesh", "mesh": "cube_mixed"},
]


def support_value(shape, dl):
    """h(dl) in the local frame as an explicit expression (uses SQRT: one radical per smooth shape)."""
    s, T = shape.spec, shape.type
    dx, dy, dz = dl
    if T == "sphere":
        return s["radius"] * SQRT(NORM2(dl))
    if T == "ellipsoid":
        a, b, c = s["radii"]
        return SQRT((a * dx) * (a * dx) + (b * dy) * (b * dy) + (c * dz) * (c * dz))
    if T == "capsule":
        return 0.5 * s["height"] * ABS(dz) + s["radius"] * SQRT(NORM2(dl))
    if T == "cylinder":
        return 0.5 * s["length"] * ABS(dz) + s["radius"] * SQRT(dx * dx + dy * dy)
    if T == "cone":
        return MAX(s["radius"] * SQRT(dx * dx + dy * dy), s["height"] * dz)
    if T == "box":
        h = 0.0
        for c, sz in zip(dl, s["size"]):
            h = h + 0.5 * sz * ABS(c)
        return h
    if T == "disk":
        return s["radius"] * SQRT(dx * dx + dy * dy)
    if T == "ellipse":
        a, b = s["radii"]
        return SQRT((a * dx) * (a * dx) + (b * dy) * (b * dy))
    if T in ("mesh", "hull"):
        return MAX(*[DOT(v, dl) for v in shape.local_vertices()])
    if T == "margin":
        return support_value(Shape(s["inner"]), dl) + s["margin"] * SQRT(NORM2(dl))
    raise KeyError(T)
