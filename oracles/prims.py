"""Geometric primitives of distance3d.distance, written independently of the
library and polymorphically (floats or SymReals): construction from JSON
specs, rigid motion, membership predicates and convex optimality certificates.
"""
from symx.harness import (AND, OR, NOT, IMPLIES, DOT, SUB, ADD, SCALE, CROSS, NORM2, MATVEC,
                          close, ABS, SQRT, ITE, MAX, MIN)


def _v(x):
    return [float(c) if isinstance(c, (int,)) else c for c in x]


def apply_motion(M, p):
    """M = (R rows, t) ; point"""
    R, t = M
    return ADD(MATVEC(R, p), t)


def apply_rot(M, d):
    return MATVEC(M[0], d)


IDENT = ([[1.0, 0.0, 0.0], [0.0, 1.0, 0.0], [0.0, 0.0, 1.0]], [0.0, 0.0, 0.0])


def pose_matrix(R, t):
    return [[R[0][0], R[0][1], R[0][2], t[0]],
            [R[1][0], R[1][1], R[1][2], t[1]],
            [R[2][0], R[2][1], R[2][2], t[2]],
            [0.0, 0.0, 0.0, 1.0]]


def matmul3(A, B):
    return [[DOT(A[i], [B[k][j] for k in range(3)]) for j in range(3)] for i in range(3)]


def transpose(A):
    return [[A[j][i] for j in range(len(A))] for i in range(len(A[0]))]


# ---------------------------------------------------------------- primitives
class Prim:
    convex = True
    bounded = True
    kind = None

    def moved(self, M):
        raise NotImplementedError

    def args(self, cx):
        raise NotImplementedError

    def contains(self, p, tol):
        raise NotImplementedError

    def vertices(self):
        """Extreme points (bounded polytopes)."""
        return None

    def lin_dirs(self):
        """Directions along which the set is invariant (lines, planes)."""
        return []

    def scale(self):
        return 1.0

    # optimality: sign*w.(x - p) >= -eps for all x in the set
    def cert(self, w, p, eps, sign):
        conds = []
        for d in self.lin_dirs():
            conds.append(("lin", DOT(w, d)))
        vs = self.vertices()
        if vs is None:
            raise NotImplementedError(self.kind)
        out = []
        for v in vs:
            out.append(sign * DOT(w, SUB(v, p)) >= -eps)
        return out, conds


class Point(Prim):
    kind = "point"

    def __init__(self, p):
        self.p = _v(p)

    def moved(self, M):
        return Point(apply_motion(M, self.p))

    def args(self, cx):
        return [cx.arr(self.p)]

    def contains(self, q, tol):
        return AND(*[close(a, b, tol) for a, b in zip(q, self.p)])

    def vertices(self):
        return [self.p]


class Line(Prim):
    kind = "line"
    bounded = False

    def __init__(self, p, d):
        self.p, self.d = _v(p), _v(d)

    def moved(self, M):
        return Line(apply_motion(M, self.p), apply_rot(M, self.d))

    def args(self, cx):
        return [cx.arr(self.p), cx.arr(self.d)]

    def contains(self, q, tol):
        # |(q-p) x d|^2 <= tol^2 |d|^2
        c = CROSS(SUB(q, self.p), self.d)
        return NORM2(c) <= tol * tol * NORM2(self.d)

    def vertices(self):
        return [self.p]

    def lin_dirs(self):
        return [self.d]


class Segment(Prim):
    kind = "segment"

    def __init__(self, s, e):
        self.s, self.e = _v(s), _v(e)

    def moved(self, M):
        return Segment(apply_motion(M, self.s), apply_motion(M, self.e))

    def args(self, cx):
        return [cx.arr(self.s), cx.arr(self.e)]

    def contains(self, q, tol):
        d = SUB(self.e, self.s)
        dd = NORM2(d)
        r = SUB(q, self.s)
        c = CROSS(r, d)
        u = DOT(r, d)
        # on the carrier line and parameter in [0,1] (with slack)
        return AND(NORM2(c) <= tol * tol * dd, u >= -tol * dd, u <= dd + tol * dd)

    def vertices(self):
        return [self.s, self.e]


class Plane(Prim):
    kind = "plane"
    bounded = False

    def __init__(self, p, n):
        self.p, self.n = _v(p), _v(n)

    def moved(self, M):
        return Plane(apply_motion(M, self.p), apply_rot(M, self.n))

    def args(self, cx):
        return [cx.arr(self.p), cx.arr(self.n)]

    def contains(self, q, tol):
        h = DOT(SUB(q, self.p), self.n)
        return AND(h <= tol, -h <= tol)

    def vertices(self):
        return [self.p]

    def cert(self, w, p, eps, sign):
        # w must be parallel to n: w x n = 0
        c = CROSS(w, self.n)
        return [], [("par", c[0]), ("par", c[1]), ("par", c[2])]


class Triangle(Prim):
    kind = "triangle"

    def __init__(self, pts):
        self.pts = [_v(p) for p in pts]

    def moved(self, M):
        return Triangle([apply_motion(M, p) for p in self.pts])

    def args(self, cx):
        return [cx.arr(self.pts)]

    def contains(self, q, tol):
        a, b, c = self.pts
        e0, e1 = SUB(b, a), SUB(c, a)
        n = CROSS(e0, e1)
        nn = NORM2(n)
        r = SUB(q, a)
        h = DOT(r, n)
        # barycentric via areas: u = n.((b-a)x(q-a)) ... scaled by nn
        wc = DOT(n, CROSS(e0, r))       # weight of c * nn
        wb = DOT(n, CROSS(r, e1))       # weight of b * nn
        wa = nn - wb - wc
        s = tol * nn
        return AND(h * h <= tol * tol * nn, wa >= -s, wb >= -s, wc >= -s)

    def vertices(self):
        return self.pts


class Rectangle(Prim):
    kind = "rectangle"

    def __init__(self, c, axes, lengths):
        self.c, self.axes, self.lengths = _v(c), [_v(a) for a in axes], _v(lengths)

    def moved(self, M):
        return Rectangle(apply_motion(M, self.c), [apply_rot(M, a) for a in self.axes], self.lengths)

    def args(self, cx):
        return [cx.arr(self.c), cx.arr(self.axes), cx.arr(self.lengths)]

    def contains(self, q, tol):
        r = SUB(q, self.c)
        u, v = DOT(r, self.axes[0]), DOT(r, self.axes[1])
        n = CROSS(self.axes[0], self.axes[1])
        h = DOT(r, n)
        return AND(ABS(u) <= 0.5 * self.lengths[0] + tol, ABS(v) <= 0.5 * self.lengths[1] + tol,
                   h <= tol, -h <= tol)

    def vertices(self):
        out = []
        for s0 in (-0.5, 0.5):
            for s1 in (-0.5, 0.5):
                out.append(ADD(self.c, ADD(SCALE(s0 * self.lengths[0], self.axes[0]),
                                           SCALE(s1 * self.lengths[1], self.axes[1]))))
        return out


class Box(Prim):
    kind = "box"

    def __init__(self, R, t, size):
        self.R, self.t, self.size = [_v(r) for r in R], _v(t), _v(size)

    def moved(self, M):
        return Box(matmul3(M[0], self.R), apply_motion(M, self.t), self.size)

    def args(self, cx):
        return [cx.arr(pose_matrix(self.R, self.t)), cx.arr(self.size)]

    def contains(self, q, tol):
        r = SUB(q, self.t)
        Rt = transpose(self.R)
        return AND(*[ABS(DOT(r, Rt[k])) <= 0.5 * self.size[k] + tol for k in range(3)])

    def vertices(self):
        Rt = transpose(self.R)
        out = []
        for s0 in (-0.5, 0.5):
            for s1 in (-0.5, 0.5):
                for s2 in (-0.5, 0.5):
                    p = self.t
                    for k, s in enumerate((s0, s1, s2)):
                        p = ADD(p, SCALE(s * self.size[k], Rt[k]))
                    out.append(p)
        return out


class Disk(Prim):
    kind = "disk"

    def __init__(self, c, radius, n):
        self.c, self.radius, self.n = _v(c), radius, _v(n)

    def moved(self, M):
        return Disk(apply_motion(M, self.c), self.radius, apply_rot(M, self.n))

    def args(self, cx):
        return [cx.arr(self.c), self.radius, cx.arr(self.n)]

    def contains(self, q, tol):
        r = SUB(q, self.c)
        h = DOT(r, self.n)
        rr = NORM2(r) - h * h
        R = self.radius + tol
        return AND(h <= tol, -h <= tol, rr <= R * R)

    def cert(self, w, p, eps, sign):
        # sup over the disk of -sign*w.(x-p) = -sign*w.(c-p) + radius*|w_perp|  <= eps
        h = DOT(w, self.n)
        wp2 = NORM2(w) - h * h     # |w_perp|^2 (n unit)
        lhs = eps + sign * DOT(w, SUB(self.c, p))     # must be >= radius*|w_perp|
        return [AND(lhs >= 0, lhs * lhs >= self.radius * self.radius * wp2)], []


class Circle(Disk):
    kind = "circle"
    convex = False

    def moved(self, M):
        return Circle(apply_motion(M, self.c), self.radius, apply_rot(M, self.n))

    def contains(self, q, tol):
        r = SUB(q, self.c)
        h = DOT(r, self.n)
        rr = NORM2(r) - h * h
        lo = MAX(self.radius - tol, 0.0)
        hi = self.radius + tol
        return AND(h <= tol, -h <= tol, rr <= hi * hi, rr >= lo * lo)


class Ellipsoid(Prim):
    kind = "ellipsoid"

    def __init__(self, R, t, radii):
        self.R, self.t, self.radii = [_v(r) for r in R], _v(t), _v(radii)

    def moved(self, M):
        return Ellipsoid(matmul3(M[0], self.R), apply_motion(M, self.t), self.radii)

    def args(self, cx):
        return [cx.arr(pose_matrix(self.R, self.t)), cx.arr(self.radii)]

    def contains(self, q, tol):
        r = SUB(q, self.t)
        Rt = transpose(self.R)
        s = 0.0
        for k in range(3):
            x = DOT(r, Rt[k])
            s = s + x * x / ((self.radii[k] + tol) * (self.radii[k] + tol))
        return s <= 1.0

    def cert(self, w, p, eps, sign):
        # support value of the ellipsoid along u: c.u + sqrt(sum (r_k * (R^T u)_k)^2)
        Rt = transpose(self.R)
        s = 0.0
        for k in range(3):
            x = self.radii[k] * DOT(w, Rt[k])
            s = s + x * x
        lhs = eps + sign * DOT(w, SUB(self.t, p))
        return [AND(lhs >= 0, lhs * lhs >= s)], []


class Cylinder(Prim):
    kind = "cylinder"

    def __init__(self, R, t, radius, length):
        self.R, self.t, self.radius, self.length = [_v(r) for r in R], _v(t), radius, length

    def moved(self, M):
        return Cylinder(matmul3(M[0], self.R), apply_motion(M, self.t), self.radius, self.length)

    def args(self, cx):
        return [cx.arr(pose_matrix(self.R, self.t)), self.radius, self.length]

    def contains(self, q, tol):
        r = SUB(q, self.t)
        Rt = transpose(self.R)
        z = DOT(r, Rt[2])
        x, y = DOT(r, Rt[0]), DOT(r, Rt[1])
        R = self.radius + tol
        return AND(ABS(z) <= 0.5 * self.length + tol, x * x + y * y <= R * R)

    def cert(self, w, p, eps, sign):
        Rt = transpose(self.R)
        wz = DOT(w, Rt[2])
        wx, wy = DOT(w, Rt[0]), DOT(w, Rt[1])
        # h(-sign*w) = 0.5*l*|wz| + radius*sqrt(wx^2+wy^2) <= eps + sign*w.(c-p)
        lhs = eps + sign * DOT(w, SUB(self.t, p)) - 0.5 * self.length * ABS(wz)
        return [AND(lhs >= 0, lhs * lhs >= self.radius * self.radius * (wx * wx + wy * wy))], []


KINDS = {"point": Point, "line": Line, "segment": Segment, "plane": Plane, "triangle": Triangle,
         "rectangle": Rectangle, "box": Box, "disk": Disk, "circle": Circle, "ellipsoid": Ellipsoid,
         "cylinder": Cylinder}


def from_spec(s):
    k = s["kind"]
    if k == "point":
        return Point(s["p"])
    if k == "line":
        return Line(s["p"], s["d"])
    if k == "segment":
        return Segment(s["s"], s["e"])
    if k == "plane":
        return Plane(s["p"], s["n"])
    if k == "triangle":
        return Triangle(s["pts"])
    if k == "rectangle":
        return Rectangle(s["c"], s["axes"], s["lengths"])
    if k == "box":
        return Box(s.get("R", IDENT[0]), s["t"], s["size"])
    if k in ("disk", "circle"):
        return KINDS[k](s["c"], s["radius"], s["n"])
    if k == "ellipsoid":
        return Ellipsoid(s.get("R", IDENT[0]), s["t"], s["radii"])
    if k == "cylinder":
        return Cylinder(s.get("R", IDENT[0]), s["t"], s["radius"], s["length"])
    raise KeyError(k)


# ---------------------------------------------------------------- motions (sweeps)
def rot_about_axis(axis, c, s):
    """Rodrigues with given cos/sin (axis unit, concrete)."""
    x, y, z = axis
    C = 1.0 - c
    return [[c + x * x * C, x * y * C - z * s, x * z * C + y * s],
            [y * x * C + z * s, c + y * y * C, y * z * C - x * s],
            [z * x * C - y * s, z * y * C + x * s, c + z * z * C]]


def half_angle(t):
    """(cos, sin) = ((1-t^2)/(1+t^2), 2t/(1+t^2)): exactly orthonormal for every real t."""
    from symx.core import SymReal
    if isinstance(t, SymReal):
        e = t.e
        den = 1 + e * e
        import symx.core as core
        core.ENGINE.nonlinear = True
        return SymReal((1 - e * e) / den), SymReal(2 * e / den)
    den = 1.0 + t * t
    return (1.0 - t * t) / den, 2.0 * t / den


def motion(sweep, P):
    """Rigid motion (R, t) from a sweep spec and the parameter values."""
    k = sweep["kind"]
    if k == "T1":
        return (sweep.get("R", IDENT[0]), ADD(sweep.get("o", [0.0, 0.0, 0.0]), SCALE(P["t"], sweep["u"])))
    if k == "T2":
        return (sweep.get("R", IDENT[0]), ADD(sweep.get("o", [0.0, 0.0, 0.0]),
                              ADD(SCALE(P["t"], sweep["u"]), SCALE(P["s"], sweep["v"]))))
    if k == "T3":
        return (IDENT[0], [P["t"], P["s"], P["r"]])
    if k == "R1":
        if "c" in P:
            c, s = P["c"], P["s"]
        else:
            c, s = half_angle(P["t"])
        R = rot_about_axis(sweep["axis"], c, s)
        ctr = sweep.get("center", [0.0, 0.0, 0.0])
        # x -> R (x - ctr) + ctr + o
        t = SUB(ADD(ctr, sweep.get("o", [0.0, 0.0, 0.0])), MATVEC(R, ctr))
        return (R, t)
    if k == "R1T1":
        c, s = half_angle(P["t"])
        R = rot_about_axis(sweep["axis"], c, s)
        ctr = sweep.get("center", [0.0, 0.0, 0.0])
        t = SUB(ADD(ctr, SCALE(P["s"], sweep["u"])), MATVEC(R, ctr))
        return (R, t)
    if k == "fixed":
        return (sweep.get("R", IDENT[0]), sweep.get("t", [0.0, 0.0, 0.0]))
    raise KeyError(k)


def sweep_params(sweep, T=3.0):
    k = sweep["kind"]
    T = sweep.get("range", T)
    if k == "R1" and sweep.get("cs"):
        return [("c", -1.0, 1.0), ("s", -1.0, 1.0)]
    if k in ("T1", "R1"):
        return [("t", -T, T)]
    if k in ("T2", "R1T1"):
        return [("t", -T, T), ("s", -T, T)]
    if k == "T3":
        return [("t", -T, T), ("s", -T, T), ("r", -T, T)]
    return [("t", 0.0, 1.0)] if k == "fixed" else []


def sweep_assumptions(sweep, P):
    if sweep["kind"] == "R1" and sweep.get("cs"):
        return [P["c"] * P["c"] + P["s"] * P["s"] == 1.0]
    return []


# rotations with exactly representable-ish rational entries (rounded once to float64; the
# model uses the rounded values exactly, orthonormal to 1e-16)
RZ345 = [[0.6, -0.8, 0.0], [0.8, 0.6, 0.0], [0.0, 0.0, 1.0]]
RX51213 = [[1.0, 0.0, 0.0], [0.0, 5.0 / 13.0, -12.0 / 13.0], [0.0, 12.0 / 13.0, 5.0 / 13.0]]
RGEN = [[sum(RX51213[i][k] * RZ345[k][j] for k in range(3)) for j in range(3)] for i in range(3)]
