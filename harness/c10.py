"""C10 — primitive distance functions: feasibility, consistency, definedness."""
from . import dist_common as DC

FUNCTIONS = ["distance3d.distance." + f for f in DC.FUNCS]
OUTSIDE = DC.OUTSIDE_FUNCS
STUBS = []
BOUNDS = {"quick": "2 base primitive pairs x 11 one-parameter sweeps (translation along a line / rotation about an axis, t in [-3,3] resp. all angles but pi) per function; <=300 branch decisions per path",
          "thorough": "all corpus pairs x 15 sweeps incl. 2-parameter translations"}
WALL_BUDGET = {"quick": 300, "thorough": 600}
EXPECTED_EXCEPTIONS = ()


def make(family, args):
    return DC.DistScenario("C10", family, args["a"], args["b"], args["sweep"], "feas", args.get("move", "b"))


def jobs(tier, seed):
    return DC.make_jobs("C10", tier, seed)
