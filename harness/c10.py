"""C10 — primitive distance functions: feasibility, consistency, definedness."""
from . import dist_common as DC

FUNCTIONS = ["distance3d.distance." + f for f in DC.FUNCS] + ["distance3d.distance.line_to_circle (closed-form branches only: lines through a point of the circle axis)"]
OUTSIDE = DC.OUTSIDE_FUNCS
STUBS = []
BOUNDS = {"quick": "2 base primitive pairs x 11 one-parameter sweeps (translation along a line / rotation about an axis, t in [-3,3] resp. all angles but pi) per function; <=300 branch decisions per path; line_to_circle: 3 circles x 8 rational directions, line through the axis point c + t*n, t in [-3,3]",
          "thorough": "all corpus pairs x 15 sweeps incl. 2-parameter translations"}
WALL_BUDGET = {"quick": 300, "thorough": 600}
EXPECTED_EXCEPTIONS = ()


def make(family, args):
    if family == "line_to_circle:axis":
        return DC.AxisLineCircle("C10", args, "feas")
    return DC.DistScenario("C10", family, args["a"], args["b"], args["sweep"], "feas", args.get("move", "b"))


def jobs(tier, seed):
    return DC.make_jobs("C10", tier, seed) + DC.axis_line_jobs(tier)
