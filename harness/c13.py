"""C13 — point containment predicates agree with the shapes."""
from . import coll_common as CC
from oracles import shapes as SH

FUNCTIONS = ["distance3d.containment_test.points_in_{sphere,capsule,ellipsoid,disk,cone,cylinder,box,convex_mesh}",
             "distance3d.utils.invert_transform", "distance3d.distance.point_to_cylinder/point_to_disk/point_to_box (agreement clause)"]
STUBS = []
OUTSIDE = ["agreement with point_to_ellipsoid (Newton iteration, outside reach) and with the support function (follows from the C03 oracle, not re-posed)",
           "rounding"]
BOUNDS = {"quick": "query point FULLY symbolic (3 reals in [-3,3]^3 around the shape), batches of 1-3 points with the symbolic one at every position; 8 predicates x 4 signed-permutation poses + rotation sweep about one axis (4 reals)",
          "thorough": "all 24 poses, 3 rotation sweeps, larger sizes"}
WALL_BUDGET = {"quick": 300, "thorough": 600}


def make(family, args):
    return CC.ContainScenario("C13", args)


EXTRA = {"sphere": [[0.5, 0.0, 0.0], [0.0, 0.0, 0.0]],
         "capsule": [[0.0, 0.0, 1.5], [0.5, 0.0, 1.0]],
         "ellipsoid": [[1.0, 0.0, 0.0], [0.0, 0.0, 2.0]],
         "disk": [[1.0, 0.0, 0.0], [0.0, 0.0, 0.0]],
         "cone": [[0.0, 0.0, 2.0], [0.5, 0.0, 0.0]],
         "cylinder": [[0.5, 0.0, 1.0], [0.0, 0.0, -1.0]],
         "box": [[0.5, 0.25, 1.0], [0.0, 0.0, 0.0]],
         "mesh": [[1.0, 1.0, 1.0], [0.0, 0.0, 0.0]]}


def jobs(tier, seed):
    J = []
    shapes = [s for s in SH.CORPUS if s["type"] in CC.PRED and not str(s.get("mesh", "")).endswith(("_mixed", "_raw"))]
    if tier != "quick":
        shapes += [s for s in SH.CORPUS_MORE if s["type"] in CC.PRED and not str(s.get("mesh", "")).endswith(("_mixed", "_raw"))]
    for sh in shapes:
        fam = sh["type"]
        big = SH.Shape(sh).size_scale() > 8
        rng = 3.0 if not big else 128.0
        for r0 in ([0, 7, 13, 22] if tier == "quick" else range(24)):
            J.append({"family": fam, "args": {"shape": sh, "r0": r0, "t": CC.TRANSLATIONS[r0 % 3], "range": rng}})
        ex = EXTRA[fam]
        for order in (0, 1, 2):
            J.append({"family": fam, "args": {"shape": sh, "r0": (3 + 5 * order) % 24, "t": CC.TRANSLATIONS[1], "range": rng,
                                              "extra_points": ex, "order": order}})
        for ax in ([CC.Z] if tier == "quick" else [CC.X, CC.Y, CC.Z]):
            J.append({"family": fam, "args": {"shape": sh, "rot_axis": ax, "r0": 9, "t": CC.TRANSLATIONS[1], "range": rng}})
    return J
