"""C19 — narrow-phase queries always terminate with finite results on valid input."""
from . import gjk_common as GC

FUNCTIONS = ["gjk_distance_jolt", "gjk_intersection_jolt", "gjk_intersection_libccd", "mpr_intersection", "mpr_penetration",
             "gjk_distance_original", "gjk_nesterov_accelerated (+-acceleration)", "gjk_nesterov_accelerated_primitives (+-acceleration, boxes)",
             "epa (on the simplex handed over by gjk_distance_jolt)"]
STUBS = []
OUTSIDE = ["rounding-induced cycles (the progress tests are floating-point tests; the model proves termination of the exact-arithmetic execution on the sweep and replays candidate non-terminations on the float code)",
           "smooth colliders", "self_collision.detect (see C06)"]
BOUNDS = {"quick": "11 entry points x 9 polytope pairs (identical, nested 1e4, needle 1e4, flat, segment, point, duplicated vertices) x 1 of 3 translation sweeps through identical / coplanar / lattice placements, plus the same collider object passed twice; unwinding bound 128 support evaluations per path (exceeding it is reported and replayed, never truncated silently)",
          "thorough": "all sweeps"}
WALL_BUDGET = {"quick": 300, "thorough": 600}
EXPECTED_EXCEPTIONS = ()


def is_violation(what, res):
    from symx.driver import default_is_violation
    # EPA's polytope-capacity assertion is the one documented exception
    if res.get("exc_type") == "AssertionError" and "epa" in what:
        return None
    return default_is_violation(what, res)


def make(family, args):
    return GC.Termination("C19", args)


def jobs(tier, seed):
    return GC.termination_jobs(tier, seed)
