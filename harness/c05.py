"""C05 — AABB tree answers overlap queries exactly, for every insertion history.

ALL box coordinates are symbolic (only lo <= hi assumed): equal, touching,
nested and degenerate boxes are included.  Linear arithmetic only:
`_aabb_volume` is replaced by its contract (non-negative, monotone under box
inclusion), which makes the sibling choice non-deterministic, so every sibling
choice is covered; `aabb_overlap` is replaced by the summary of its own paths.
"""
import itertools

import numpy as np

from symx.harness import Scenario, AND, OR, NOT, is_symbolic

FUNCTIONS = ["distance3d.aabb_tree.AabbTree.insert_aabbs", "AabbTree.insert_aabb", "AabbTree.overlaps_aabb",
             "AabbTree.overlaps_aabb_tree", "AabbTree.get_root_aabb", "insert_aabbs", "insert_leaf",
             "fix_upward_tree", "query_overlap", "query_overlap_of_other_tree", "aabb_overlap (summarised from its own paths)",
             "_merge_aabb", "_sort_aabbs", "all_aabbs_overlap"]
STUBS = ["_aabb_volume -> uninterpreted value constrained by its contract: >= 0, zero iff an extent is zero, monotone under box inclusion and strictly so away from zero volume (contract discharged on the real function in family volume_contract)",
         "np.random.shuffle -> arbitrary permutation (fork over all)",
         "aabb_overlap -> disjunction of the true-paths of the real function explored on placeholders"]
OUTSIDE = ["more than 5 boxes in total; more than 3 batches", "floating-point rounding"]
BOUNDS = {"quick": "total boxes n<=4 (all 6n coordinates + 6 query coordinates symbolic, unbounded), <=3 batches of every size>=0, modes none/sort/shuffle, with/without external data, second tree <=2 leaves",
          "thorough": "total boxes n<=5, second tree <=3 leaves"}
WALL_BUDGET = {"quick": 300, "thorough": 600}
EXPECTED_EXCEPTIONS = ()
ASSUMPTIONS = ["boxes are well-formed: lo <= hi on every axis"]

_SUMMARY = {}


def _install_stubs():
    """Symbolic mode only."""
    import z3
    from symx import core
    import distance3d.aabb_tree as T
    if "overlap" not in _SUMMARY:
        _SUMMARY["real_overlap"] = getattr(T.aabb_overlap, "py_func", T.aabb_overlap)
        _SUMMARY["overlap"] = core.PredicateSummary(T.aabb_overlap, [(3, 2), (3, 2)], "ov")
        _SUMMARY["real_volume"] = T._aabb_volume
    T.aabb_overlap = _SUMMARY["overlap"]

    def vol(aabb):
        eng = core.ENGINE
        vols = eng.scratch.setdefault("_vols", [])
        v = eng.new_real("vol")
        eng.side.append(v >= 0)

        def incl(x, y):
            return z3.And(*[z3.And(core.lift(y[k, 0]) <= core.lift(x[k, 0]), core.lift(x[k, 1]) <= core.lift(y[k, 1]))
                            for k in range(3)])
        ext0 = z3.Or(*[core.lift(aabb[k, 1]) == core.lift(aabb[k, 0]) for k in range(3)])
        eng.side.append((v == 0) == ext0)                      # zero volume iff some extent is zero

        def same(x, y):
            return z3.And(*[z3.And(core.lift(y[k, 0]) == core.lift(x[k, 0]), core.lift(x[k, 1]) == core.lift(y[k, 1]))
                            for k in range(3)])
        for bb, w in vols:
            eng.side.append(z3.Implies(incl(aabb, bb), v <= w))
            eng.side.append(z3.Implies(incl(bb, aabb), w <= v))
            # strict monotonicity away from zero volume
            eng.side.append(z3.Implies(z3.And(incl(aabb, bb), v == w), z3.Or(same(aabb, bb), w == 0)))
            eng.side.append(z3.Implies(z3.And(incl(bb, aabb), v == w), z3.Or(same(aabb, bb), v == 0)))
            eng.side.append(z3.Implies(same(aabb, bb), v == w))
        vols.append((aabb.copy(), v))
        if len(eng.trace) >= len(eng.prefix):
            eng.model = None
        return core.SymReal(v)
    T._aabb_volume = vol


def box_params(prefix, n):
    out = []
    for i in range(n):
        for a in range(3):
            out.append(("%s%d_%d_lo" % (prefix, i, a), None, None))
            out.append(("%s%d_%d_hi" % (prefix, i, a), None, None))
    return out


def boxes_from(cx, prefix, n):
    return [[[cx.P["%s%d_%d_lo" % (prefix, i, a)], cx.P["%s%d_%d_hi" % (prefix, i, a)]] for a in range(3)]
            for i in range(n)]


def ov(a, b):
    return AND(*[AND(a[k][0] <= b[k][1], a[k][1] >= b[k][0]) for k in range(3)])


def check_structure(tree, n_leaves, ob, tag):
    """Concrete index structure + symbolic box invariants of the real tree object."""
    T = tree
    INDEX_NONE = -1
    ok = True
    msgs = []
    if n_leaves == 0:
        ob.require(tag + "struct_empty", exact=(T.root == INDEX_NONE and T.filled_len == 0))
        return
    ok = ok and (T.filled_len == 2 * n_leaves - 1) and len(T.nodes) == T.filled_len and len(T.aabbs) == T.filled_len
    seen = set()
    leaves = 0
    stack = [int(T.root)]
    box_conds = []
    if not (0 <= int(T.root) < T.filled_len) or int(T.nodes[int(T.root), 0]) != INDEX_NONE:
        ok = False
    while stack and ok:
        k = stack.pop()
        if k in seen or not (0 <= k < T.filled_len):
            ok = False
            break
        seen.add(k)
        typ = int(T.nodes[k, 3])
        if typ == 1:
            leaves += 1
        elif typ == 2:
            l, r = int(T.nodes[k, 1]), int(T.nodes[k, 2])
            if not (0 <= l < T.filled_len and 0 <= r < T.filled_len) or int(T.nodes[l, 0]) != k or int(T.nodes[r, 0]) != k:
                ok = False
                break
            for a in range(3):
                lo = T.aabbs[l][a][0]
                lo2 = T.aabbs[r][a][0]
                hi = T.aabbs[l][a][1]
                hi2 = T.aabbs[r][a][1]
                box_conds.append(AND(OR(T.aabbs[k][a][0] == lo, T.aabbs[k][a][0] == lo2),
                                     T.aabbs[k][a][0] <= lo, T.aabbs[k][a][0] <= lo2,
                                     OR(T.aabbs[k][a][1] == hi, T.aabbs[k][a][1] == hi2),
                                     T.aabbs[k][a][1] >= hi, T.aabbs[k][a][1] >= hi2))
            stack.extend([l, r])
        else:
            ok = False
    ok = ok and leaves == n_leaves and len(seen) == T.filled_len
    ob.require(tag + "struct_links", exact=bool(ok))
    if box_conds:
        ob.require(tag + "struct_branch_boxes", exact=AND(*box_conds))


class TreeScenario(Scenario):
    """batches: list of (size, mode, with_data); then query with a box and
    optionally with a second tree of m leaves."""
    prop = "C05"
    max_decisions = 2000
    max_paths = 20000
    timeout_ms = 10000
    budget_s = 300
    check_definedness = False

    def __init__(self, batches, other=0, single_inserts=False, realvol=False, other_empty=False):
        self.realvol = realvol
        self.other_empty = other_empty
        self.batches = [tuple(b) for b in batches]
        self.n = sum(b[0] for b in self.batches)
        self.other = other
        self.single_inserts = single_inserts
        self.params = box_params("b", self.n) + box_params("q", 1) + box_params("o", other)

    def assume(self, cx):
        out = []
        for (name, _, _) in self.params:
            if name.endswith("_lo"):
                out.append(cx.P[name] <= cx.P[name[:-3] + "_hi"])
        return out

    def build(self, cx):
        return {"boxes": boxes_from(cx, "b", self.n), "q": boxes_from(cx, "q", 1)[0],
                "other": boxes_from(cx, "o", self.other)}

    def call(self, cx, inp):
        import distance3d.aabb_tree as T
        if cx.symbolic:
            _install_stubs()
            if self.realvol:
                T._aabb_volume = _SUMMARY["real_volume"]      # the real product of extents (degree 3)
        tree = T.AabbTree()
        j = 0
        payload_of_insert = []     # insertion counter -> input box id
        structs = []
        for (size, mode, with_data) in self.batches:
            ids = list(range(j, j + size))
            j += size
            if self.single_inserts:
                for i in ids:
                    tree.insert_aabb(cx.arr(inp["boxes"][i]), ("box", i) if with_data else None)
                    payload_of_insert.append(i)
            else:
                arr = cx.arr([inp["boxes"][i] for i in ids]) if size else cx.arr(np.zeros((0, 3, 2)))
                data = [("box", i) for i in ids] if with_data else None
                tree.insert_aabbs(arr, data, pre_insertion_methode=mode)
                payload_of_insert.extend(ids)
        self._tree = tree
        self._payload_of_insert = payload_of_insert
        hit, overlaps = tree.overlaps_aabb(cx.arr(inp["q"]))
        res = {"hit": bool(hit), "ids": self._ids(tree, overlaps)}
        res["_raw"] = [int(k) for k in overlaps]
        root = tree.get_root_aabb() if self.n else None
        res["_root"] = root
        if self.other_empty:
            t2 = T.AabbTree()                       # a tree without boxes as the ARGUMENT of the tree-against-tree query
            hit2, o1, o2, pairs = tree.overlaps_aabb_tree(t2)
            res["empty_other"] = [bool(hit2), len(o1), len(o2), len(pairs)]
        if self.other:
            t2 = T.AabbTree()
            t2.insert_aabbs(cx.arr(inp["other"]), [("o", i) for i in range(self.other)])
            hit2, o1, o2, pairs = tree.overlaps_aabb_tree(t2)
            res["hit2"] = bool(hit2)
            res["pairs"] = sorted((self._id_of(tree, int(a)), t2.external_data_list[int(b)][1]) for a, b in pairs)
            res["o1"] = sorted(self._id_of(tree, int(a)) for a in o1)
            res["o2"] = sorted(t2.external_data_list[int(b)][1] for b in o2)
            res["_npairs"] = len(pairs)
        # outputs compared with the compiled run: only path-independent values
        self._res = res
        out = [res["hit"], sorted(res["ids"])]
        if self.other:
            out += [res["hit2"], [list(p) for p in res["pairs"]], res["o1"], res["o2"]]
        return out

    def _id_of(self, tree, k):
        with_data_any = any(b[2] for b in self.batches)
        d = tree.external_data_list[k]
        ins = tree.insert_index_list[k]
        if ins is None:
            return ("no-insert-index", k)
        i = self._payload_of_insert[ins] if 0 <= ins < len(self._payload_of_insert) else ("bad-insert-index", ins)
        if d is not None:
            # payload must agree with the insertion index bookkeeping
            if d[1] != i:
                return ("payload-mismatch", d[1], i)
        else:
            # was this box given with data?
            pass
        return i

    def _ids(self, tree, overlaps):
        return [self._id_of(tree, int(k)) for k in overlaps]

    def check(self, cx, inp, out, ob):
        res = self._res
        ids = res["ids"]
        good = all(isinstance(i, int) for i in ids)
        ob.require("indices_map_to_inserted_boxes", exact=good)
        if not good:
            return
        ob.require("no_duplicates", exact=(len(set(ids)) == len(ids)))
        got = set(ids)
        conds_in = [ov(inp["boxes"][i], inp["q"]) for i in sorted(got)]
        conds_out = [NOT(ov(inp["boxes"][i], inp["q"])) for i in range(self.n) if i not in got]
        ob.require("none_spurious", exact=AND(*conds_in) if conds_in else True)
        ob.require("none_missing", exact=AND(*conds_out) if conds_out else True)
        ob.require("hit_flag", exact=(res["hit"] == (len(ids) > 0)))
        # payloads of boxes inserted with data
        tree = self._tree
        j = 0
        pay_ok = True
        for (size, mode, with_data) in self.batches:
            for i in range(j, j + size):
                ks = [k for k in range(tree.filled_len) if tree.insert_index_list[k] is not None
                      and self._payload_of_insert[tree.insert_index_list[k]] == i]
                if len(ks) != 1:
                    pay_ok = False
                elif with_data and tree.external_data_list[ks[0]] != ("box", i):
                    pay_ok = False
                elif not is_symbolic(inp["boxes"][i][0][0]):
                    pass
            j += size
        ob.require("payload_bookkeeping", exact=pay_ok)
        # stored leaf boxes are the inserted boxes
        leaf_eq = []
        for k in range(tree.filled_len):
            ins = tree.insert_index_list[k]
            if ins is not None and int(tree.nodes[k, 3]) == 1:
                i = self._payload_of_insert[ins]
                for a in range(3):
                    leaf_eq.append(tree.aabbs[k][a][0] == inp["boxes"][i][a][0])
                    leaf_eq.append(tree.aabbs[k][a][1] == inp["boxes"][i][a][1])
        if leaf_eq:
            ob.require("leaf_boxes_unchanged", exact=AND(*leaf_eq))
        check_structure(tree, self.n, ob, "")
        if self.n:
            root = res["_root"]
            conds = []
            for a in range(3):
                los = [inp["boxes"][i][a][0] for i in range(self.n)]
                his = [inp["boxes"][i][a][1] for i in range(self.n)]
                conds.append(AND(*[root[a][0] <= x for x in los]))
                conds.append(OR(*[root[a][0] == x for x in los]))
                conds.append(AND(*[root[a][1] >= x for x in his]))
                conds.append(OR(*[root[a][1] == x for x in his]))
            ob.require("root_is_hull", exact=AND(*conds))
        if self.other_empty:
            ob.require("query_against_empty_tree_is_empty", exact=(res["empty_other"] == [False, 0, 0, 0]))
        if self.other:
            pairs = res["pairs"]
            goodp = all(isinstance(a, int) and isinstance(b, int) for a, b in pairs)
            ob.require("pair_indices_valid", exact=goodp)
            if goodp:
                ob.require("pairs_no_duplicates", exact=(len(set(pairs)) == len(pairs)))
                gotp = set(pairs)
                cin = [ov(inp["boxes"][a], inp["other"][b]) for a, b in sorted(gotp)]
                cout = [NOT(ov(inp["boxes"][a], inp["other"][b])) for a in range(self.n) for b in range(self.other)
                        if (a, b) not in gotp]
                ob.require("pairs_none_spurious", exact=AND(*cin) if cin else True)
                ob.require("pairs_none_missing", exact=AND(*cout) if cout else True)
                ob.require("pairs_projections", exact=(res["o1"] == sorted(set(a for a, _ in pairs))
                                                       and res["o2"] == sorted(set(b for _, b in pairs))
                                                       and res["hit2"] == (len(pairs) > 0)))


class VolumeContract(Scenario):
    """Discharges the contract assumed for _aabb_volume on the real function."""
    prop = "C05"
    params = box_params("x", 2)
    check_definedness = False
    timeout_ms = 60000

    def assume(self, cx):
        out = []
        for (name, _, _) in self.params:
            if name.endswith("_lo"):
                out.append(cx.P[name] <= cx.P[name[:-3] + "_hi"])
        return out

    def build(self, cx):
        return boxes_from(cx, "x", 2)

    def call(self, cx, inp):
        import distance3d.aabb_tree as T
        f = T._aabb_volume
        if cx.symbolic and "real_volume" in _SUMMARY:
            f = _SUMMARY["real_volume"]
        return [f(cx.arr(inp[0])), f(cx.arr(inp[1]))]

    def check(self, cx, inp, out, ob):
        a, b = inp
        incl = AND(*[AND(b[k][0] <= a[k][0], a[k][1] <= b[k][1]) for k in range(3)])
        ob.require("volume_nonneg", exact=AND(out[0] >= 0, out[1] >= 0))
        ob.require("volume_monotone", exact=OR(NOT(incl), out[0] <= out[1]))
        ext0 = OR(*[a[k][0] == a[k][1] for k in range(3)])
        same = AND(*[AND(a[k][0] == b[k][0], a[k][1] == b[k][1]) for k in range(3)])
        ob.require("volume_zero_iff_flat", exact=AND(OR(NOT(out[0] == 0), ext0), OR(NOT(ext0), out[0] == 0)))
        ob.require("volume_strictly_monotone", exact=OR(NOT(AND(incl, out[0] == out[1])), same, out[1] == 0))


def make(family, args):
    if family == "volume_contract":
        return VolumeContract()
    return TreeScenario(args["batches"], args.get("other", 0), args.get("single", False), args.get("realvol", False),
                        args.get("other_empty", False))


def _compositions(n, kmax):
    """All ways to split n boxes into <= kmax batches with sizes >= 0 (at least one positive unless n == 0)."""
    out = set()
    for k in range(1, kmax + 1):
        for sizes in itertools.product(range(0, n + 1), repeat=k):
            if sum(sizes) == n:
                out.add(sizes)
    return sorted(out)


def jobs(tier, seed):
    J = [{"family": "volume_contract", "args": {}}]
    nmax = 4 if tier == "quick" else 5
    modes = ["none", "sort", "shuffle"]
    # empty tree
    J.append({"family": "empty", "args": {"batches": []}})
    J.append({"family": "empty", "args": {"batches": [[0, "none", False]]}})
    J.append({"family": "empty", "args": {"batches": [], "other": 1}})
    J.append({"family": "empty", "args": {"batches": [[2, "none", True]], "other_empty": True}})
    J.append({"family": "empty", "args": {"batches": [], "other_empty": True}})
    for n in range(1, nmax + 1):
        for mode in modes:
            for wd in (True, False):
                if n >= 4 and mode == "shuffle" and not wd and tier == "quick":
                    continue
                J.append({"family": "single_batch", "args": {"batches": [[n, mode, wd]]}})
    # several batches
    for n in range(2, nmax + 1):
        for sizes in _compositions(n, 3):
            if len(sizes) < 2:
                continue
            if tier == "quick" and n == 4 and len(sizes) == 3 and 0 in sizes:
                continue
            for mi, mode_combo in enumerate(itertools.product(modes, repeat=len(sizes))):
                # quick: same mode everywhere + a few mixed ones chosen by the seed
                uniform = len(set(mode_combo)) == 1
                if tier == "quick" and not uniform and (mi + seed + n) % 5 != 0:
                    continue
                if tier == "quick" and "shuffle" in mode_combo and n >= 4:
                    continue
                wd = (mi + len(sizes)) % 2 == 0
                J.append({"family": "multi_batch",
                          "args": {"batches": [[s, m, wd] for s, m in zip(sizes, mode_combo)]}})
    # single inserts
    for n in range(1, min(nmax, 4) + 1):
        J.append({"family": "insert_aabb", "args": {"batches": [[n, "none", True]], "single": True}})
    # tree against tree
    for n, m in ([(1, 1), (2, 1), (2, 2), (3, 2)] + ([(3, 3), (4, 2)] if tier != "quick" else [])):
        for mode in ("none", "sort"):
            J.append({"family": "tree_tree", "args": {"batches": [[n, mode, True]], "other": m}})
    J.append({"family": "tree_tree", "args": {"batches": [[1, "none", True], [1, "none", True]], "other": 2}})
    return J
