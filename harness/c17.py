"""C17 — tetrahedral mesh factories partition the shape with valid potentials.

The sizes are SYMBOLIC (radius, radii, box sizes, cylinder/capsule radius and
length); ring counts are made concrete through resolution_hint = radius * k.
The hull of the mesh is found once per path (scipy, on the mesh built at the
path's witness sizes) and then (i) proved to support every symbolic vertex for
all sizes of the path and (ii) integrated symbolically."""
import numpy as np

from symx.harness import (Scenario, AND, OR, NOT, IMPLIES, DOT, SUB, ADD, SCALE, CROSS, NORM2, ABS, SQRT, MIN, MAX,
                          close, vec_close, vec_eq, is_symbolic)
from symx import core

FUNCTIONS = ["distance3d.hydroelastic_contact.make_tetrahedral_sphere/ellipsoid/cube/box/cylinder/capsule", "make_triangular_icosphere",
             "_split_to_tetrahedra", "_split_triangular_prism_to_tetrahedra", "_split_pyramid_to_tetrahedra",
             "_calc_long/medium/short_cylinder_volume_mesh_with_ma", "tetrahedral_mesh_volumes", "tetrahedral_mesh_aabbs",
             "center_of_mass_tetrahedral_mesh", "RigidBody.com / aabbs / tetrahedra_points caches across express_in histories (micro-bodies)"]
STUBS = ["scipy.spatial.ConvexHull on the concrete witness mesh supplies the candidate facet list; its validity for ALL sizes of the path is an obligation, not an assumption"]
OUTSIDE = ["icosphere orders 3-4 and fine resolution hints (thousands of tetrahedra)", "RigidBody.make_* wrappers (they only forward)", "rounding"]
BOUNDS = {"quick": "sphere r in [0.01,100] orders 0-1; ellipsoid radii (3 reals) order 0; cube size; box sizes (3 reals, incl. the 'two/three sides equal' class boundaries); cylinder (r, l: long/medium/short classes) and capsule (r, h) with 3-7 vertices per circle",
          "thorough": "order 2, more ring counts"}
WALL_BUDGET = {"quick": 300, "thorough": 600}
EXPECTED_EXCEPTIONS = ()


def det3(a, b, c):
    return DOT(a, CROSS(b, c))


class Factory(Scenario):
    prop = "C17"
    timeout_ms = 20000
    budget_s = 150
    max_decisions = 600

    def __init__(self, args):
        self.args = args
        k = args["kind"]
        lo, hi = 0.01, 100.0
        self.params = {"sphere": [("r", lo, hi)], "ellipsoid": [("a", lo, hi), ("b", lo, hi), ("c", lo, hi)],
                       "cube": [("s", lo, hi)], "box": [("sx", lo, hi), ("sy", lo, hi), ("sz", lo, hi)],
                       "cylinder": [("r", lo, hi), ("l", lo, hi)], "capsule": [("r", lo, hi), ("h", lo, hi)]}[k]

    def assume(self, cx):
        a = self.args
        out = []
        if a.get("rel"):      # restrict to a class: e.g. l >= 2.5 r (long), l == 2 r (medium), l <= 1.5 r (short)
            r = a["rel"]
            P = cx.P
            if r == "long":
                out.append(P["l"] >= 2.5 * P["r"])
            elif r == "medium":
                out.append(P["l"] == 2.0 * P["r"])
            elif r == "short":
                out.append(P["l"] <= 1.5 * P["r"])
            elif r == "box_generic":
                out += [P["sx"] >= 1.25 * P["sy"], P["sy"] >= 1.25 * P["sz"]]
            elif r == "box_two_equal":
                out += [P["sx"] == P["sy"], P["sy"] >= 1.25 * P["sz"]]
            elif r == "box_two_equal_small":
                out += [P["sy"] == P["sz"], P["sx"] >= 1.25 * P["sy"]]
            elif r == "box_cube":
                out += [P["sx"] == P["sy"], P["sy"] == P["sz"]]
        return out

    def build(self, cx):
        return dict(cx.P)

    def factory(self, cx, P):
        import distance3d.hydroelastic_contact._tetra_mesh_creation as H
        a = self.args
        k = a["kind"]
        if k == "sphere":
            return H.make_tetrahedral_sphere(P["r"], a["order"])
        if k == "ellipsoid":
            return H.make_tetrahedral_ellipsoid(cx.arr([P["a"], P["b"], P["c"]]), a["order"])
        if k == "cube":
            return H.make_tetrahedral_cube(P["s"])
        if k == "box":
            return H.make_tetrahedral_box(cx.arr([P["sx"], P["sy"], P["sz"]]))
        if k == "cylinder":
            return H.make_tetrahedral_cylinder(P["r"], P["l"], P["r"] * a["hint_k"])
        if k == "capsule":
            return H.make_tetrahedral_capsule(P["r"], P["h"], P["r"] * a["hint_k"])
        raise KeyError(k)

    def call(self, cx, P):
        import distance3d.hydroelastic_contact as H
        from distance3d.hydroelastic_contact._mesh_processing import (tetrahedral_mesh_volumes, tetrahedral_mesh_aabbs,
                                                                    center_of_mass_tetrahedral_mesh)
        V, T, pot = self.factory(cx, P)
        T = np.asarray(T, dtype=int)
        tp = V[T]
        vols = tetrahedral_mesh_volumes(tp)
        aabbs = tetrahedral_mesh_aabbs(tp)
        com = center_of_mass_tetrahedral_mesh(tp)
        # hull facets from a concrete copy of this path's mesh
        if cx.symbolic:
            m = core.ENGINE.witness()
            Vc = np.array(core.ENGINE.eval_float(V, m), dtype=float) if m is not None else None
        else:
            Vc = np.array(V, dtype=float)
        facets = None
        if Vc is not None and np.all(np.isfinite(Vc)):
            from scipy.spatial import ConvexHull
            ch = ConvexHull(Vc)
            c0 = Vc.mean(axis=0)
            facets = []
            for tri in ch.simplices:
                i, j, k = [int(x) for x in tri]
                n = np.cross(Vc[j] - Vc[i], Vc[k] - Vc[i])
                if np.dot(n, Vc[i] - c0) < 0:
                    j, k = k, j
                facets.append((i, j, k))
        return {"V": V, "T": T, "pot": pot, "vols": vols, "aabbs": aabbs, "com": com, "facets": facets}

    def observable(self, out):
        return [len(out["V"]), len(out["T"]), sum(list(out["vols"]))]

    def depth(self, P, v):
        """Analytic distance of an interior point to the boundary (None where not closed-form)."""
        k = self.args["kind"]
        x, y, z = v
        if k == "sphere":
            return ("sq", P["r"], NORM2(v))                 # depth = r - |v|
        if k == "cube":
            h = 0.5 * P["s"]
            return ("val", MIN(h - ABS(x), h - ABS(y), h - ABS(z)))
        if k == "box":
            return ("val", MIN(0.5 * P["sx"] - ABS(x), 0.5 * P["sy"] - ABS(y), 0.5 * P["sz"] - ABS(z)))
        return None

    def check(self, cx, P, out, ob):
        V, T, pot, vols = out["V"], out["T"], out["pot"], out["vols"]
        k = self.args["kind"]
        scale = 100.0
        n = len(T)
        ob.require("index_ranges", exact=bool(np.all(T >= 0) and np.all(T < len(V)) and len(pot) == len(V)))
        dets = []
        for t in T:
            a, b, c, d = [list(V[int(i)]) for i in t]
            dets.append(det3(SUB(b, a), SUB(c, a), SUB(d, a)))
        ob.require("all_tetrahedra_non_degenerate", exact=AND(*[NOT(x == 0) for x in dets]))
        # the library's volumes helper agrees with the direct formula
        ob.require("volumes_helper", exact=AND(*[OR(6.0 * v == x, 6.0 * v == -x) for v, x in zip(list(vols), dets)]),
                   tol=AND(*[close(6.0 * v, ABS(x), 1e-9 * ABS(x) + 1e-300) for v, x in zip(list(vols), dets)]))
        total6 = 0.0
        for x in dets:
            total6 = total6 + ABS(x)
        if k in ("cube", "box"):
            want = (P["s"] * P["s"] * P["s"]) if k == "cube" else (P["sx"] * P["sy"] * P["sz"])
            ob.require("tiling_exact", exact=(total6 == 6.0 * want), tol=close(total6, 6.0 * want, 6e-9 * want))
        facets = out["facets"]
        if facets is not None:
            sup, sup_t = [], []
            hull6 = 0.0
            for (i, j, kk) in facets:
                a, b, c = list(V[i]), list(V[j]), list(V[kk])
                nrm = CROSS(SUB(b, a), SUB(c, a))
                for w in range(len(V)):
                    if w in (i, j, kk):
                        continue
                    sup.append(DOT(nrm, SUB(list(V[w]), a)) <= 0)
                    sup_t.append(DOT(nrm, SUB(list(V[w]), a)))
                hull6 = hull6 + det3(a, b, c)
            tolh = 1e-9
            # tolerance: coplanar neighbours of a facet (subdivided faces) sit on its plane up to rounding of the constants
            ob.require("hull_facets_support_all_vertices", exact=AND(*sup) if sup else True,
                       tol=AND(hull6 > 0, AND(*[x <= 1e-9 * hull6 for x in sup_t])) if sup else True)
            ob.require("volumes_sum_to_hull_volume", exact=(total6 == hull6), tol=close(total6, hull6, 1e-9 * hull6))
        # potentials
        pots = list(pot)
        if k == "sphere":
            inr = P["r"]
        elif k == "ellipsoid":
            inr = MIN(P["a"], P["b"], P["c"])
        elif k == "cube":
            inr = 0.5 * P["s"]
        elif k == "box":
            inr = 0.5 * MIN(P["sx"], P["sy"], P["sz"])
        elif k == "cylinder":
            inr = MIN(P["r"], 0.5 * P["l"])
        else:
            inr = P["r"]
        ob.require("potentials_are_0_or_inradius", exact=AND(*[OR(p == 0, p == inr) for p in pots]),
                   tol=AND(*[OR(close(p, 0.0, 1e-9 * scale), close(p, inr, 1e-9 * scale)) for p in pots]))
        # vertices inside the analytic shape; potential = distance to the boundary where closed-form
        ins = []
        for v, p in zip(V, pots):
            v = list(v)
            x, y, z = v
            if k == "sphere":
                ins.append(AND(NORM2(v) <= P["r"] * P["r"] * (1 + 1e-12),
                               (P["r"] - p) >= 0, close((P["r"] - p) * (P["r"] - p), NORM2(v), 1e-9 * scale * scale)))
            elif k == "ellipsoid":
                ins.append(x * x / (P["a"] * P["a"]) + y * y / (P["b"] * P["b"]) + z * z / (P["c"] * P["c"]) <= 1.0 + 1e-12)
            elif k in ("cube", "box"):
                hx, hy, hz = (0.5 * P["s"],) * 3 if k == "cube" else (0.5 * P["sx"], 0.5 * P["sy"], 0.5 * P["sz"])
                d = MIN(hx - ABS(x), hy - ABS(y), hz - ABS(z))
                ins.append(AND(d >= 0, d == p))
            elif k == "cylinder":
                rr = P["r"]
                ins.append(AND(ABS(z) <= 0.5 * P["l"] * (1 + 1e-12), x * x + y * y <= rr * rr * (1 + 1e-12)))
            else:
                hh = 0.5 * P["h"]
                u = MIN(MAX(z, -hh), hh)
                rr = P["r"]
                ins.append(x * x + y * y + (z - u) * (z - u) <= rr * rr * (1 + 1e-12))
        ob.require("vertices_in_shape_and_potential_is_depth", tol=AND(*ins))
        # helpers
        ab = out["aabbs"]
        conds = []
        for ti, t in enumerate(T):
            pts = [list(V[int(i)]) for i in t]
            for ax in range(3):
                cs = [p[ax] for p in pts]
                conds.append(AND(AND(*[ab[ti][ax][0] <= c for c in cs]), OR(*[ab[ti][ax][0] == c for c in cs]),
                                 AND(*[ab[ti][ax][1] >= c for c in cs]), OR(*[ab[ti][ax][1] == c for c in cs])))
        ob.require("aabb_helper", exact=AND(*conds))
        # centre of mass: sum |det| * centroid = com * sum |det|
        acc = [0.0, 0.0, 0.0]
        for t, x in zip(T, dets):
            pts = [list(V[int(i)]) for i in t]
            cen = [0.25 * (pts[0][ax] + pts[1][ax] + pts[2][ax] + pts[3][ax]) for ax in range(3)]
            acc = ADD(acc, SCALE(ABS(x), cen))
        com = list(out["com"])
        ob.require("center_of_mass_helper", exact=vec_eq(SCALE(total6, com), acc),
                   tol=vec_close(SCALE(total6, com), acc, 1e-9 * scale * total6))


class RigidBodyCaches(Scenario):
    """RigidBody's lazily cached helpers (com, aabbs, tetrahedra_points) after express_in histories must agree
    with direct computation on the current vertices."""
    prop = "C17"
    timeout_ms = 10000
    budget_s = 60

    def __init__(self, args):
        self.args = args
        self.params = [("tx", -1000.0, 1000.0), ("ty", -1000.0, 1000.0), ("tz", -1000.0, 1000.0)]

    def build(self, cx):
        from harness.coll_common import R0
        return {"R": R0[self.args["r0"]], "t": [cx.P["tx"], cx.P["ty"], cx.P["tz"]]}

    def call(self, cx, inp):
        import distance3d.hydroelastic_contact as H
        from harness.c16 import micro_body
        from oracles import shapes as SH
        from oracles import prims as PR
        rb = micro_body(H, cx, self.args["tets"], (PR.RZ345, [0.25, -0.5, 1.0]))
        if self.args["history"] in ("read_then_express", "twice"):
            rb.com, rb.aabbs, rb.tetrahedra_points        # materialise the caches in the first frame
        rb.express_in(cx.arr(SH.pose_rows(inp["R"], inp["t"])))
        if self.args["history"] == "twice":
            rb.com
            rb.express_in(cx.arr(SH.pose_rows(PR.RGEN, [1.0, 2.0, -0.5])))
        return {"com": rb.com, "aabbs": rb.aabbs, "tp": rb.tetrahedra_points, "V": rb.vertices_, "T": rb.tetrahedra_}

    def observable(self, out):
        return [out["com"]]

    def check(self, cx, inp, out, ob):
        V, T = out["V"], np.asarray(out["T"], dtype=int)
        acc, tot, conds, tpc = [0.0, 0.0, 0.0], 0.0, [], []
        for ti, t in enumerate(T):
            pts = [list(V[int(i)]) for i in t]
            a, b, c, d = pts
            vol = ABS(det3(SUB(b, a), SUB(c, a), SUB(d, a)))
            cen = [0.25 * (a[k] + b[k] + c[k] + d[k]) for k in range(3)]
            acc = ADD(acc, SCALE(vol, cen))
            tot = tot + vol
            for k in range(4):
                tpc.append(vec_eq(list(out["tp"][ti][k]), pts[k]))
            for ax in range(3):
                cs = [p[ax] for p in pts]
                conds.append(AND(AND(*[out["aabbs"][ti][ax][0] <= x for x in cs]), OR(*[out["aabbs"][ti][ax][0] == x for x in cs]),
                                 AND(*[out["aabbs"][ti][ax][1] >= x for x in cs]), OR(*[out["aabbs"][ti][ax][1] == x for x in cs])))
        ob.require("cached_tetrahedra_points_current", exact=AND(*tpc))
        ob.require("cached_aabbs_current", exact=AND(*conds))
        ob.require("cached_com_current", exact=vec_eq(SCALE(tot, list(out["com"])), acc),
                   tol=vec_close(SCALE(tot, list(out["com"])), acc, 1e-9 * 1000.0 * 16.0))


def make(family, args):
    if family == "rigid_body_caches":
        return RigidBodyCaches(args)
    return Factory(args)


def jobs(tier, seed):
    J = []
    for order in ([0, 1] if tier == "quick" else [0, 1, 2]):
        J.append({"family": "sphere", "args": {"kind": "sphere", "order": order}})
    for order in ([0] if tier == "quick" else [0, 1]):
        J.append({"family": "ellipsoid", "args": {"kind": "ellipsoid", "order": order}})
    J.append({"family": "cube", "args": {"kind": "cube"}})
    for rel in ("box_generic", "box_two_equal", "box_two_equal_small", "box_cube", None):
        J.append({"family": "box", "args": {"kind": "box", "rel": rel}})
    for rel in ("long", "medium", "short", None):
        for hk in ([2.5, 1.0] if tier == "quick" else [2.5, 1.6, 1.0, 0.8]):
            J.append({"family": "cylinder", "args": {"kind": "cylinder", "rel": rel, "hint_k": hk}})
    for hk in ([2.0, 1.5] if tier == "quick" else [2.0, 1.5, 1.0]):
        J.append({"family": "capsule", "args": {"kind": "capsule", "hint_k": hk}})
    for tets in (["corner"], ["cube_top", "regular"]):
        for hist in ("express_only", "read_then_express", "twice"):
            for r0 in ([7] if tier == "quick" else [0, 7, 13, 22]):
                J.append({"family": "rigid_body_caches", "args": {"tets": tets, "history": hist, "r0": r0}})
    return J
