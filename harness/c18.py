"""C18 — simplex solvers return the minimum-norm point of the convex hull of 1-4 points.

k-1 points on the {-1,0,1}^3 lattice (duplicates / affinely dependent sets
included), the remaining point moves along a line through lattice points
(parameter t), or one coordinate axis is scaled by s in [1e-6, 1e6].
"""
import itertools
import random

import numpy as np

from symx.harness import (Scenario, AND, OR, NOT, IMPLIES, DOT, SUB, ADD, SCALE, NORM2, ABS, close, vec_close,
                          vec_eq, is_symbolic)

FUNCTIONS = ["distance3d.gjk._gjk_jolt.get_closest_point_to_origin", "closest_point_line", "closest_point_triangle",
             "closest_point_tetrahedron", "origin_outside_of_tetrahedron_planes",
             "get_barycentric_coordinates_line/plane/tetrahedron (as certificate producers)",
             "distance3d.gjk._gjk_original.distance_subalgorithm_with_backup_procedure(backup=True)", "backup_procedure",
             "BarycentricCoordinates.*", "SimplexInfo.set_first_point/add_new_point/select_*/reorder", "Solution.from_*"]
STUBS = []
OUTSIDE = ["all points simultaneously symbolic (measured out of reach, DESIGN §3)",
           "the exhaustive-lattice reading of the property (enumeration is not this technique)", "rounding"]
BOUNDS = {"quick": "k in 1..4; ~50 seeded base configurations per k and solver: k-1 lattice points + one point on a lattice line (t in [-3,3]); + scaling sweeps of one axis (s in [1e-6,1e6])",
          "thorough": "~600 base configurations per k and solver"}
WALL_BUDGET = {"quick": 300, "thorough": 600}
LAT = list(itertools.product([-1.0, 0.0, 1.0], repeat=3))
DIRS = [d for d in LAT if any(d)]


class SimplexScenario(Scenario):
    prop = "C18"
    timeout_ms = 8000
    budget_s = 60
    max_decisions = 400

    def __init__(self, args):
        self.args = args
        self.k = len(args["base"]) + (1 if args["kind"] == "P1" else 0)
        if args["kind"] == "P1":
            self.params = [("t", -3.0, 3.0)]
        else:
            self.params = [("s", 1e-6, 1e6)]

    def build(self, cx):
        a = self.args
        pts = [list(p) for p in a["base"]]
        if a["kind"] == "P1":
            moving = ADD(a["p0"], SCALE(cx.P["t"], a["u"]))
            pos = a.get("pos", len(pts))
            pts.insert(pos, moving)
        else:
            ax = a["axis"]
            for p in pts:
                p[ax] = p[ax] * cx.P["s"]
        return pts

    def call(self, cx, pts):
        k = len(pts)
        if self.args["solver"] == "jolt":
            import distance3d.gjk._gjk_jolt as J
            from distance3d.utils import MAX_FLOAT
            Y = cx.arr(pts + [[0.0, 0.0, 0.0]] * (4 - k))
            ok, v, vlen, simplex = J.get_closest_point_to_origin(Y, k, MAX_FLOAT)
            if not ok:
                return [False, None, None, 0, None]
            idx = [i for i in range(k) if simplex & (1 << i)]
            S = [Y[i] for i in idx]
            if len(S) == 1:
                lam = [1.0]
            elif len(S) == 2:
                lam = list(J.get_barycentric_coordinates_line(S[0], S[1]))
            elif len(S) == 3:
                lam = list(J.get_barycentric_coordinates_plane(S[0], S[1], S[2]))
            else:
                lam = list(J.get_barycentric_coordinates_tetrahedron(S[0], S[1], S[2], S[3]))
            return [True, list(v), vlen, int(simplex), lam]
        else:
            import distance3d.gjk._gjk_original as O
            sx = O.SimplexInfo()
            sx.set_first_point(0, 0, cx.arr(pts[0]))
            for i in range(1, k):
                sx.add_new_point(i, i, cx.arr(pts[i]))
            sol, backup = O.distance_subalgorithm_with_backup_procedure(sx, O.Solution(), True)
            n = len(sx)
            return [True, list(sol.search_direction), sol.distance_squared, n,
                    list(sol.barycentric_coordinates[:n]), [list(p) for p in sx.points[:n]]]

    def observable(self, out):
        return out[:3]

    def check(self, cx, pts, out, ob):
        ok = out[0]
        ob.require("solver_reports_success", exact=bool(ok))
        if not ok:
            return
        v, vlen, lam = out[1], out[2], out[4]
        vv = NORM2(v)
        scale2 = 1.0
        for p in pts:
            scale2 = scale2 + NORM2(p)
        tol = 1e-9 * scale2
        ob.require("norm_consistent", exact=(vlen == vv), tol=close(vlen, vv, tol))
        # KKT: v is the min-norm point of conv(all) iff v in conv(all) and v.y_i >= v.v for all i
        if cx.symbolic:
            # exact KKT; the tolerance variant is the first-order sufficient condition (residual <= 1e-9*scale):
            # a refutation of it is only a candidate, decided on replay by the exact oracle below
            ob.require("kkt_optimal", exact=AND(*[DOT(v, p) >= vv for p in pts]),
                       tol=AND(*[DOT(v, p) >= vv - tol for p in pts]))
        else:
            # concrete replay: the property itself - |v| within 1e-9 relative of the true minimum norm, computed by an
            # independent exact (rational) enumeration of all sub-simplices
            best = exact_min_norm_sq(pts)
            ob.require("kkt_optimal", exact=(float(vv) <= float(best) * (1.0 + 2e-9) + 1e-300))
        if self.args["solver"] == "jolt":
            idx = [i for i in range(len(pts)) if out[3] & (1 << i)]
            S = [pts[i] for i in idx]
        else:
            S = out[5]
            # every returned simplex point is one of the input points
            ob.require("subset_of_input", exact=AND(*[OR(*[vec_eq(s, p) for p in pts]) for s in S]))
        ob.require("subset_nonempty", exact=(len(S) >= 1 and len(S) == len(lam)))
        if len(S) != len(lam) or not S:
            return
        comb = [0.0, 0.0, 0.0]
        for l, s in zip(lam, S):
            comb = ADD(comb, SCALE(l, s))
        tl = 1e-9 * (1.0 + max(1.0, 0.0))
        sm = 0.0
        for l in lam:
            sm = sm + l
        ob.require("weights_nonneg", exact=AND(*[l >= 0 for l in lam]), tol=AND(*[l >= -1e-9 for l in lam]))
        ob.require("weights_sum_1", exact=(sm == 1.0), tol=close(sm, 1.0, 1e-9))
        ob.require("weights_reproduce_v", exact=vec_eq(comb, v), tol=AND(*[close(a, b, tol) for a, b in zip(comb, v)]))


def exact_min_norm_sq(pts):
    """Squared distance of the origin to conv(pts), exactly (Fractions), by enumerating sub-simplices."""
    from fractions import Fraction
    P = [[Fraction(float(c)) for c in p] for p in pts]
    best = None
    n = len(P)
    for r in range(1, n + 1):
        for S in itertools.combinations(range(n), r):
            Q = [P[i] for i in S]
            # minimise |sum l_i q_i|^2 s.t. sum l_i = 1: KKT system [G 1; 1^T 0][l; mu] = [0; 1]
            m = len(Q)
            A = [[sum(a * b for a, b in zip(Q[i], Q[j])) for j in range(m)] + [Fraction(1)] for i in range(m)]
            A.append([Fraction(1)] * m + [Fraction(0)])
            rhs = [Fraction(0)] * m + [Fraction(1)]
            sol = _solve_frac(A, rhs)
            if sol is None:
                continue
            lam = sol[:m]
            if any(l < 0 for l in lam):
                continue
            v = [sum(l * q[k] for l, q in zip(lam, Q)) for k in range(3)]
            nn = sum(c * c for c in v)
            if best is None or nn < best:
                best = nn
    return best


def _solve_frac(A, b):
    n = len(A)
    M = [row[:] + [b[i]] for i, row in enumerate(A)]
    for c in range(n):
        piv = next((r for r in range(c, n) if M[r][c] != 0), None)
        if piv is None:
            return None
        M[c], M[piv] = M[piv], M[c]
        pv = M[c][c]
        M[c] = [x / pv for x in M[c]]
        for r in range(n):
            if r != c and M[r][c] != 0:
                f = M[r][c]
                M[r] = [x - f * y for x, y in zip(M[r], M[c])]
    return [M[i][n] for i in range(n)]


def make(family, args):
    return SimplexScenario(args)


def jobs(tier, seed):
    rnd = random.Random(1000 + seed)
    n = 50 if tier == "quick" else 600
    J = []
    for solver in ("jolt", "original"):
        for k in (1, 2, 3, 4):
            seen = set()
            tries = 0
            while len(seen) < (n if k > 1 else min(n, 30)) and tries < 100000:
                tries += 1
                base = tuple(rnd.choice(LAT) for _ in range(k - 1))
                p0 = rnd.choice(LAT)
                u = rnd.choice(DIRS)
                pos = rnd.randrange(k)
                key = (base, p0, u, pos)
                if key in seen:
                    continue
                seen.add(key)
                J.append({"family": "%s_k%d" % (solver, k),
                          "args": {"solver": solver, "kind": "P1", "base": [list(b) for b in base], "p0": list(p0),
                                   "u": list(u), "pos": pos}})
            # scaling sweeps (aspect ratio)
            m = 6 if tier == "quick" else 60
            for _ in range(m):
                base = [list(rnd.choice(LAT)) for _ in range(k)]
                J.append({"family": "%s_k%d_scale" % (solver, k),
                          "args": {"solver": solver, "kind": "S1", "base": base, "axis": rnd.randrange(3)}})
    return J
