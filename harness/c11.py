"""C11 — primitive distance functions return the global minimum distance (convex pairs, by certificate)."""
from . import dist_common as DC

FUNCTIONS = ["distance3d.distance." + f for f in DC.FUNCS if f != "point_to_circle"] + ["distance3d.distance.line_to_circle (closed-form branches only: lines through a point of the circle axis)"]
OUTSIDE = DC.OUTSIDE_FUNCS + ["point_to_circle (non-convex target: no finite certificate)", "the 5e-3 bisection clause (line_to_circle)"]
STUBS = []
ASSUMPTIONS = ["the property's own exclusion is applied as an assumption on the sweep parameter: direction cosines between the two primitives' axes/normals/edges are not strictly inside (0,1e-2) of 0 or of 1"]
BOUNDS = {"quick": "2 base primitive pairs x 11 one-parameter sweeps per function (29 convex-pair functions); optimality stated as a finite separating-plane certificate over vertices / invariant directions / closed-form support values - never as a quantifier over competing points; exception line_to_circle on lines through the circle axis (3 circles x 8 rational directions, axis point c + t*n, t in [-3,3]): every competing line point (one more free real, |s| <= 8) against its closed-form nearest circle point, tolerance 5e-3*L",
          "thorough": "all corpus pairs x 17 sweeps incl. 2-parameter translations"}
WALL_BUDGET = {"quick": 300, "thorough": 600}
EXPECTED_EXCEPTIONS = ()


def make(family, args):
    if family == "line_to_circle:axis":
        return DC.AxisLineCircle("C11", args, "opt")
    return DC.DistScenario("C11", family, args["a"], args["b"], args["sweep"], "opt", args.get("move", "b"))


def jobs(tier, seed):
    return [j for j in DC.make_jobs("C11", tier, seed) if j["family"] != "point_to_circle"] + DC.axis_line_jobs(tier)
