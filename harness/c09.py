"""C09 — alternative distance algorithms agree with the true distance."""
from . import gjk_common as GC
from . import coll_common as CC

FUNCTIONS = ["distance3d.gjk.gjk_distance_original (Johnson sub-algorithm, backup procedure, vertex cache, SimplexInfo)",
             "distance3d.gjk.gjk_nesterov_accelerated(+_distance) with and without acceleration: project_line/triangle/tetra, origin_to_*, region_*",
             "distance3d.gjk.gjk_nesterov_accelerated_primitives(+_distance) for Box pairs",
             "_gjk_nesterov_accelerated.support_function/select_support/*_support and the inflation bookkeeping for every ordered pair of 11 collider types (one-step contract)",
             "gjk_distance_jolt_iterations vs gjk_distance_jolt", "gjk_distance_jolt as certificate producer (certificate proved in-path)"]
STUBS = []
OUTSIDE = ["full Nesterov/original runs with smooth colliders (nested radicals); for those only the one-step dispatch/inflation contract is covered",
           "normalize_support_direction (mesh-mesh with acceleration)", "rounding"]
BOUNDS = {"quick": "original: 6 polytope pairs x 4 sweeps + unequal parallel boxes (box_box2: 4 sweeps, box_box3: 3 lines through the grid offset (0.5,0,2)); nesterov +-acceleration: 3 pairs x 4 sweeps, primitives: box pairs; contract: all 121 ordered type pairs x 1 rotation sweep of the whole scene (all angles but pi)",
          "thorough": "all corpus pairs and sweeps; contract x 3 rotation sweeps x both modules"}
WALL_BUDGET = {"quick": 300, "thorough": 600}
EXPECTED_EXCEPTIONS = ()
ROUND_ROBIN = False     # own order: the cheap one-step contract jobs first, then round-robin below


def make(family, args):
    k = family.split(":")[0]
    if k == "original":
        return GC.OriginalDistance("C09", args)
    if k == "contract":
        return GC.NesterovFirstBound("C09", args)
    if k == "jolt_iterations":
        return GC.JoltIterations("C09", args)
    return GC.AltDistance("C09", args)


def _contract_jobs(tier):
    J = []
    T = GC.ALL_TYPES
    axes = [CC.Z] if tier == "quick" else [CC.X, CC.Y, CC.Z]
    for i, a in enumerate(T):
        for k, b in enumerate(T):
            for ai, ax in enumerate(axes):
                mods = ["generic"]
                prim_ok = ("sphere", "capsule", "box", "ellipsoid", "cylinder")
                if a["type"] in prim_ok and b["type"] in prim_ok:
                    mods.append("prim")
                for m in mods:
                    J.append({"family": "contract:%s_%s" % (a["type"], b["type"]),
                              "args": {"a": a, "b": b, "axis": ax, "r0a": (3 * i + k) % 24, "r0b": (5 * k + i + 7) % 24,
                                       "ta": [0.0, 0.25, 0.0], "tb": [3.0, -0.5, 1.0], "module": m}})
    return J


def jobs(tier, seed):
    J = _contract_jobs(tier)          # cheap (one support evaluation each): first, so that a tight wall budget never drops them
    for j in GC.pair_jobs(tier, seed, algo="original", n_pairs_quick=6):
        j["family"] = "original:" + j["family"]
        J.append(j)
    if tier == "quick":
        # parallel axis-aligned boxes of unequal size at grid offsets: exactly degenerate cases of the Johnson sub-algorithm
        P = GC.POLY_CORPUS
        for si in (0, 1, 2, 6):
            J.append({"family": "original:box_box2", "args": {"a": P[0], "b": P[7], "sweep": GC.SWEEPS[si], "a_pose": 0, "swap": si % 2 == 1,
                                                              "algo": "original"}})
        # unequal parallel boxes on translation lines through grid offsets where the origin's projection falls exactly on a
        # line through two simplex vertices (equality cases of the Johnson region tests)
        b3 = {"type": "box", "size": [1.0, 3.0, 2.0]}
        for u, o in ((GC.Y, [0.5, 0.0, 2.0]), (GC.X, [0.0, 0.0, 2.0]), (GC.Z, [0.5, 0.0, 0.0])):
            J.append({"family": "original:box_box3", "args": {"a": P[0], "b": b3, "sweep": {"kind": "T1", "u": u, "o": o}, "a_pose": 0,
                                                              "swap": False, "algo": "original"}})
    for algo in ("nesterov", "nesterov_acc", "prim", "prim_acc"):
        for j in GC.pair_jobs(tier, seed, algo=algo, n_pairs_quick=3):
            if algo.startswith("prim") and not (j["args"]["a"]["type"] == "box" and j["args"]["b"]["type"] == "box"):
                continue
            if j["args"]["a"]["type"] == "flat" or j["args"]["b"]["type"] == "flat":
                pass
            j["family"] = algo + ":" + j["family"]
            J.append(j)
    for j in GC.pair_jobs(tier, seed, n_pairs_quick=2):
        j["family"] = "jolt_iterations:" + j["family"]
        J.append(j)
    J += GC.branch_scene_jobs(tier, {"prim": "prim", "generic": "nesterov"})
    if tier == "quick":
        head = [j for j in J if j["family"].startswith("contract:")]
        rest = [j for j in J if not j["family"].startswith("contract:")]
        rest.sort(key=lambda j: 0 if j["family"] == "original:box_box3" else 1)     # stable: these three lead their group
        groups = {}
        for j in rest:
            groups.setdefault(j["family"].split(":")[0], []).append(j)
        lists, order = list(groups.values()), []
        while any(lists):
            for L in lists:
                if L:
                    order.append(L.pop(0))
        J = head + order
    return J
