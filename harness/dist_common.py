"""Common scenario machinery for distance3d.distance (C10 feasibility, C11
optimality, C12 symmetry/rigid motion).  The real functions are called through
the public package `distance3d.distance`."""
import itertools
import json

from symx.harness import (Scenario, AND, OR, NOT, IMPLIES, DOT, SUB, ADD, SCALE, NORM2, close, ABS,
                          vec_close, vec_eq, is_symbolic)
from oracles import prims as PR

# function -> (kind A, kind B, return layout)   layout: "pb" = (d, pB) with pA the point itself
FUNCS = {
    "point_to_line": ("point", "line", "pb"),
    "point_to_line_segment": ("point", "segment", "pb"),
    "line_to_line": ("line", "line", "ab"),
    "line_to_line_segment": ("line", "segment", "ab"),
    "line_segment_to_line_segment": ("segment", "segment", "ab"),
    "point_to_plane": ("point", "plane", "pb"),
    "line_to_plane": ("line", "plane", "ab"),
    "line_segment_to_plane": ("segment", "plane", "ab"),
    "plane_to_plane": ("plane", "plane", "ab"),
    "plane_to_triangle": ("plane", "triangle", "ab"),
    "plane_to_rectangle": ("plane", "rectangle", "ab"),
    "plane_to_box": ("plane", "box", "ab"),
    "plane_to_ellipsoid": ("plane", "ellipsoid", "ab"),
    "plane_to_cylinder": ("plane", "cylinder", "ab"),
    "point_to_triangle": ("point", "triangle", "pb"),
    "line_to_triangle": ("line", "triangle", "ab"),
    "line_segment_to_triangle": ("segment", "triangle", "ab"),
    "triangle_to_triangle": ("triangle", "triangle", "ab"),
    "triangle_to_rectangle": ("triangle", "rectangle", "ab"),
    "point_to_rectangle": ("point", "rectangle", "pb"),
    "line_to_rectangle": ("line", "rectangle", "ab"),
    "line_segment_to_rectangle": ("segment", "rectangle", "ab"),
    "rectangle_to_rectangle": ("rectangle", "rectangle", "ab"),
    "point_to_box": ("point", "box", "pb"),
    "line_to_box": ("line", "box", "ab"),
    "line_segment_to_box": ("segment", "box", "ab"),
    "rectangle_to_box": ("rectangle", "box", "ab"),
    "point_to_disk": ("point", "disk", "pb"),
    "point_to_cylinder": ("point", "cylinder", "pb"),
    "point_to_circle": ("point", "circle", "pb"),
    # outside reach (iterative / nested radicals): listed in OUTSIDE
    # "point_to_ellipsoid", "line_to_circle", "line_segment_to_circle", "disk_to_disk"
}
OUTSIDE_FUNCS = ["point_to_ellipsoid (Newton iteration on a radical expression)",
                 "line_to_circle off the sub-domain 'line meets the circle axis in the given line point', line_segment_to_circle (8-step bisection, x**(2/3))",
                 "disk_to_disk (20 alternating projections, one radical each)"]

# ---------------------------------------------------------------- corpus (all numbers dyadic => exact in float64)
X, Y, Z = [1.0, 0.0, 0.0], [0.0, 1.0, 0.0], [0.0, 0.0, 1.0]
CORPUS = {
    "point": [{"kind": "point", "p": [0.0, 0.0, 0.0]},
              {"kind": "point", "p": [0.5, 0.25, -0.5]}],
    "line": [{"kind": "line", "p": [0.0, 0.0, 0.0], "d": X},
             {"kind": "line", "p": [0.25, 0.5, 0.0], "d": Z}],
    "segment": [{"kind": "segment", "s": [0.0, 0.0, 0.0], "e": [1.0, 0.0, 0.0]},
                {"kind": "segment", "s": [-0.5, -0.5, 0.0], "e": [0.5, 0.5, 1.0]},
                {"kind": "segment", "s": [0.0, 0.0, -0.25], "e": [0.0, 0.0, 0.0]}],
    "plane": [{"kind": "plane", "p": [0.0, 0.0, 0.0], "n": Z},
              {"kind": "plane", "p": [0.5, 0.0, 0.25], "n": X}],
    "triangle": [{"kind": "triangle", "pts": [[0.0, 0.0, 0.0], [1.0, 0.0, 0.0], [0.0, 1.0, 0.0]]},
                 {"kind": "triangle", "pts": [[0.0, 0.0, 0.0], [1.0, 0.0, 0.5], [0.0, 1.0, 1.0]]},
                 {"kind": "triangle", "pts": [[-2.0, 0.0, 0.0], [2.0, 0.0, 0.0], [0.0, 0.25, 0.0]]}],
    "rectangle": [{"kind": "rectangle", "c": [0.0, 0.0, 0.0], "axes": [X, Y], "lengths": [1.0, 2.0]},
                  {"kind": "rectangle", "c": [0.0, 0.5, 0.0], "axes": [Y, Z], "lengths": [0.5, 0.25]}],
    "box": [{"kind": "box", "t": [0.0, 0.0, 0.0], "size": [1.0, 1.0, 1.0]},
            {"kind": "box", "t": [0.0, 0.25, 0.0], "size": [1.0, 0.5, 2.0]}],
    "disk": [{"kind": "disk", "c": [0.0, 0.0, 0.0], "radius": 1.0, "n": Z},
             {"kind": "disk", "c": [0.25, 0.0, 0.0], "radius": 0.5, "n": X}],
    "circle": [{"kind": "circle", "c": [0.0, 0.0, 0.0], "radius": 1.0, "n": Z}],
    "ellipsoid": [{"kind": "ellipsoid", "t": [0.0, 0.0, 0.0], "radii": [1.0, 0.5, 2.0]}],
    "cylinder": [{"kind": "cylinder", "t": [0.0, 0.0, 0.0], "radius": 0.5, "length": 2.0}],
}

SWEEPS_Q = [
    {"kind": "T1", "u": X, "o": [0.0, 0.0, 0.0]},
    {"kind": "T1", "u": Z, "o": [0.25, 0.25, 0.0]},
    {"kind": "T1", "u": [1.0, 1.0, 0.0], "o": [0.0, 0.0, 1.0]},
    {"kind": "T1", "u": [1.0, -2.0, 0.5], "o": [0.5, 0.0, -0.25]},
    {"kind": "R1", "axis": Z, "center": [0.0, 0.0, 0.0], "o": [0.0, 0.0, 0.0]},
    {"kind": "R1", "axis": X, "center": [0.0, 0.0, 0.0], "o": [0.0, 0.0, 0.5]},
    {"kind": "R1", "axis": Y, "center": [0.5, 0.0, 0.0], "o": [0.0, 0.25, 1.0]},
    # B in general (rational) orientations: no zero direction component in the other primitive's frame
    {"kind": "T1", "u": X, "o": [0.0, 0.25, 0.5], "R": PR.RGEN},
    {"kind": "T1", "u": [0.0, 1.0, 1.0], "o": [0.5, 0.0, 0.0], "R": PR.RZ345},
    # rotations that keep one direction component zero while the primitives miss each other
    {"kind": "R1", "axis": X, "center": [0.0, 0.0, 0.0], "o": [0.0, 1.5, 1.0]},
    {"kind": "R1", "axis": Y, "center": [0.0, 0.0, 0.0], "o": [-1.5, 0.0, -0.75]},
]
SWEEPS_T = SWEEPS_Q + [
    {"kind": "T1", "u": Y, "o": [0.0, 0.0, 0.5]},
    {"kind": "T1", "u": [1.0, 1.0, 1.0], "o": [0.0, 0.0, 0.0]},
    {"kind": "T1", "u": [0.0, 1.0, -1.0], "o": [1.0, 0.0, 0.0]},
    {"kind": "R1", "axis": Z, "center": [1.0, 0.0, 0.0], "o": [0.0, 0.0, 0.25]},
    {"kind": "R1", "axis": X, "center": [0.0, 0.5, 0.0], "o": [0.0, 0.0, 0.0]},
    {"kind": "R1", "axis": Y, "center": [0.0, 0.0, 0.0], "o": [0.0, 0.0, 0.0]},
    {"kind": "T2", "u": X, "v": Y, "o": [0.0, 0.0, 0.5]},
    {"kind": "T2", "u": X, "v": Z, "o": [0.0, 0.25, 0.0]},
    {"kind": "T1", "u": Z, "o": [0.25, 0.0, 0.0], "R": PR.RX51213},
    {"kind": "T1", "u": [1.0, 1.0, 0.0], "o": [0.0, 0.0, 0.25], "R": PR.RGEN},
]


def scene_scale(a_spec, b_spec, sweep):
    T = sweep.get("range", 3.0)
    m = 1.0
    for s in (a_spec, b_spec):
        for k, v in s.items():
            if k in ("size", "radii", "lengths"):
                m = max(m, max(v))
            if k in ("radius", "length"):
                m = max(m, v)
    o = sweep.get("o", [0, 0, 0])
    u = sweep.get("u", [1, 0, 0])
    return max(1.0, m + T * max(1.0, sum(x * x for x in u) ** 0.5) + sum(abs(x) for x in o))


class DistScenario(Scenario):
    """One distance function, base primitives A (fixed) and B (moved by a sweep)."""
    budget_s = 60
    timeout_ms = 8000
    max_decisions = 300

    def __init__(self, prop, func, a_spec, b_spec, sweep, mode, move="b", pre=None):
        self.prop = prop
        self.func = func
        self.a_spec, self.b_spec, self.sweep, self.mode, self.move = a_spec, b_spec, sweep, mode, move
        self.pre = pre        # optional fixed motion applied to both (C12)
        self.params = PR.sweep_params(sweep)
        self.L = scene_scale(a_spec, b_spec, sweep)

    def build(self, cx):
        A = PR.from_spec(self.a_spec)
        B = PR.from_spec(self.b_spec)
        M = PR.motion(self.sweep, cx.P)
        if self.move == "b":
            B = B.moved(M)
        else:
            A = A.moved(M)
        return {"A": A, "B": B}

    def _fn(self):
        import distance3d.distance as D
        return getattr(D, self.func)

    def call(self, cx, inp):
        args = inp["A"].args(cx) + inp["B"].args(cx)
        return self._fn()(*args)

    def unpack(self, inp, out):
        layout = FUNCS[self.func][2]
        if layout == "pb":
            d, pb = out[0], out[1]
            pa = inp["A"].p
        else:
            d, pa, pb = out[0], out[1], out[2]
        return d, list(pa), list(pb)

    def check(self, cx, inp, out, ob):
        A, B = inp["A"], inp["B"]
        d, pa, pb = self.unpack(inp, out)
        L = self.L
        w = SUB(pa, pb)
        ww = NORM2(w)
        if self.mode in ("feas", "both"):
            ob.require("d_nonneg", exact=d >= 0)
            ob.require("pa_on_A", exact=A.contains(pa, 0.0), tol=A.contains(pa, 1e-9 * L))
            ob.require("pb_on_B", exact=B.contains(pb, 0.0), tol=B.contains(pb, 1e-9 * L))
            t = 1e-6 * L
            ob.require("dist_consistent", exact=(ww == d * d),
                       tol=AND(ww <= (d + t) * (d + t), OR(d <= t, ww >= (d - t) * (d - t))))
        if self.mode in ("opt", "both"):
            if not (A.convex and B.convex):
                return
            delta = 1e-6 * L
            eps = 0.5 * delta * d
            for label, S, p, sign in (("A", A, pa, 1.0), ("B", B, pb, -1.0)):
                ex_conds, ex_lin = S.cert(w, p, 0.0, sign)
                tl_conds, tl_lin = S.cert(w, p, eps, sign)
                ex = list(ex_conds) + [v == 0 for _, v in ex_lin]
                # lenient variant for invariant directions: (w.dir)^2 <= 2*delta*d  (or parallel residual)
                tl = list(tl_conds) + [v * v <= 2.0 * delta * d + delta * delta for _, v in tl_lin]
                ob.require("optimal_wrt_" + label, exact=AND(*ex) if ex else True,
                           tol=OR(d <= delta, AND(*tl)) if tl else True)

    def assume(self, cx):
        out = list(PR.sweep_assumptions(self.sweep, cx.P))
        if self.mode in ("opt", "both"):
            out += self.band_assumptions(cx)
        return out

    def band_assumptions(self, cx):
        """C11 excludes inputs whose direction cosines fall strictly inside (0, 1e-2) of a parallel /
        perpendicular decision (the functions' documented epsilon bands)."""
        inp = self.build(cx)
        da, db = directions_of(inp["A"]), directions_of(inp["B"])
        out = []
        for u in da:
            for v in db:
                c = DOT(u, v)
                nn = NORM2(u) * NORM2(v)
                out.append(OR(c == 0, c * c >= 1e-4 * nn))                    # not nearly perpendicular
                out.append(OR(c * c == nn, c * c <= 0.9801 * nn))             # not nearly parallel
        return out

    def describe(self):
        return {}


def directions_of(S):
    k = S.kind
    if k == "line":
        return [S.d]
    if k == "segment":
        return [SUB(S.e, S.s)]
    if k == "plane":
        return [S.n]
    if k == "triangle":
        e0, e1 = SUB(S.pts[1], S.pts[0]), SUB(S.pts[2], S.pts[0])
        return [e0, e1, SUB(S.pts[2], S.pts[1]), PR.CROSS(e0, e1)]
    if k == "rectangle":
        return [S.axes[0], S.axes[1], PR.CROSS(S.axes[0], S.axes[1])]
    if k in ("box", "cylinder", "ellipsoid"):
        Rt = PR.transpose(S.R)
        return [Rt[0], Rt[1], Rt[2]] if k == "box" else [Rt[2]]
    if k in ("disk", "circle"):
        return [S.n]
    return []


def make_jobs(prop, tier, seed, funcs=None):
    sweeps = SWEEPS_Q if tier == "quick" else SWEEPS_T
    jobs = []
    for fn, (ka, kb, _) in FUNCS.items():
        if funcs and fn not in funcs:
            continue
        As, Bs = CORPUS[ka], CORPUS[kb]
        if tier == "quick":
            pairs = [(As[0], Bs[0])]
            if len(As) > 1 or len(Bs) > 1:
                pairs.append((As[-1], Bs[-1 if len(Bs) > 1 else 0]))
        else:
            pairs = list(itertools.product(As, Bs))
        for (a, b) in pairs:
            for i, sw in enumerate(sweeps):
                move = "b" if (i % 3) != 2 else "a"
                jobs.append({"family": fn, "args": {"a": a, "b": b, "sweep": sw, "move": move}})
    return jobs


# ---------------------------------------------------------------- line_to_circle, lines that meet the circle's axis
# The general case of line_to_circle bisects (outside reach).  When the line passes through a point of the circle's
# axis the function takes closed-form branches only (_case_b1_is_zero / _case_line_and_normal_parallel): that
# sub-domain is inside reach and is claimed separately.
def _unit(v):
    n = sum(c * c for c in v) ** 0.5
    return [c / n for c in v]


AXIS_DIRS = [[0.6, 0.0, 0.8], [-0.6, 0.0, -0.8], [0.0, -5.0 / 13.0, 12.0 / 13.0], [0.0, 5.0 / 13.0, -12.0 / 13.0],
             [0.8, 0.0, -0.6], [1.0, 0.0, 0.0], [0.0, 0.0, 1.0], [-0.8, 0.0, 0.6]]
# three non-zero components: the optimality query needs > 60 s per path (thorough tier only, usually undecided)
AXIS_DIRS_MORE = [[2.0 / 7.0, 3.0 / 7.0, 6.0 / 7.0], [-2.0 / 7.0, -3.0 / 7.0, -6.0 / 7.0]]
AXIS_CIRCLES = [{"kind": "circle", "c": [0.0, 0.0, 0.0], "radius": 1.0, "n": Z},
                {"kind": "circle", "c": [0.5, -0.25, 0.25], "radius": 0.75, "n": Z},
                {"kind": "circle", "c": [0.0, 0.5, 0.0], "radius": 2.0, "n": X}]


def _perm_to_normal(d, n):
    """AXIS_DIRS are written for normal Z; for normal X rotate the components cyclically (z -> x)."""
    return d if n == Z else [d[2], d[0], d[1]]


class AxisLineCircle(DistScenario):
    """line_to_circle(line through the axis point c + t*n, fixed rational direction; circle fixed), t symbolic."""
    budget_s = 150
    timeout_ms = 45000

    def __init__(self, prop, args, mode):
        circle = args["circle"]
        line = {"kind": "line", "p": circle["c"], "d": _perm_to_normal(args["d"], circle["n"])}
        sweep = {"kind": "T1", "u": circle["n"], "o": [0.0, 0.0, 0.0]}
        DistScenario.__init__(self, prop, "line_to_circle", line, circle, sweep, mode, move="a")
        self.args = args
        if mode == "opt":
            # competing point of the line: parameter aux_s (its closest circle point is eliminated in closed form)
            self.params = self.params + [("aux_s", -8.0, 8.0)]

    def unpack(self, inp, out):
        return out[0], list(out[1]), list(out[2])

    def band_assumptions(self, cx):
        return []

    def check(self, cx, inp, out, ob):
        if self.mode == "feas":
            return DistScenario.check(self, cx, inp, out, ob)
        A, B = inp["A"], inp["B"]
        d = out[0]
        s = cx.P["aux_s"]
        x = ADD(A.p, SCALE(s, A.d))
        # the closest point of a circle (centre c, unit normal n, radius r) to x is at squared distance
        # (rho - r)^2 + h^2 with h = (x-c).n and rho^2 = |x-c|^2 - h^2; hence  d^2 <= that  <=>  2 r rho <= K
        # with K = rho^2 + r^2 + h^2 - d^2, i.e. K >= 0 and 4 r^2 rho^2 <= K^2 (no radical, no circle parameter)
        rel = SUB(x, B.c)
        h = DOT(rel, B.n)
        rho2 = NORM2(rel) - h * h
        r = B.radius
        t = 5e-3 * self.L       # the property's tolerance for line_to_circle

        def no_closer(dd):
            K = rho2 + r * r + h * h - dd
            return AND(K >= 0, 4.0 * r * r * rho2 <= K * K)
        ob.require("no_closer_pair", exact=no_closer(d * d), tol=OR(d <= t, no_closer((d - t) * (d - t))))


def axis_line_jobs(tier):
    J = []
    for ci, c in enumerate(AXIS_CIRCLES):
        for di, d in enumerate(AXIS_DIRS + (AXIS_DIRS_MORE if tier != "quick" else [])):
            if tier == "quick" and ci > 0 and (ci + di) % 2:
                continue
            J.append({"family": "line_to_circle:axis", "args": {"circle": c, "d": d}})
    return J
