"""C20 — compiled (numba) and interpreted execution give the same results.

What the solver decides: the PRECONDITIONS under which numba's documented semantics coincide with
Python's, on every explored path of a cross-section of the other properties' scenarios:
no zero divisor (Python raises / numpy gives inf / numba raises), no negative radicand, no read of np.empty
storage, no out-of-range subscript or exception, numba's eager signatures accept the arguments.
The numeric-equality clause is NOT decided by this technique (nothing here models LLVM code generation or
BLAS); it is only observed at one solver-generated witness per path, in both modes."""
import importlib

CROSS_MODE = True
FUNCTIONS = ["cross-section of the scenarios of C03 (support kernels), C05 (AABB tree incl. empty containers), C10 (distance primitives), C13 (containment), C15 (half-plane / tetrahedron intersection), C18 (GJK simplex kernels), C02 (MPR, libccd, Jolt kernels)"]
STUBS = ["as in the respective harnesses"]
OUTSIDE = ["the numeric clause (agreement to 1e-9 / solver accuracy) for all inputs: observed only at one witness per path, not decided", "code generation, BLAS/LAPACK"]
BOUNDS = {"quick": "~25 scenarios per source harness, their bounds", "thorough": "~120 per source harness"}
WALL_BUDGET = {"quick": 300, "thorough": 600}
EXPECTED_EXCEPTIONS = ()
SOURCES = ["c03", "c05", "c10", "c13", "c15", "c18", "c02"]


def make(family, args):
    src = family.split("/")[0]
    H = importlib.import_module("harness." + src)
    sc = H.make(family.split("/", 1)[1], args)
    sc.prop = "C20"
    orig_check = sc.check

    def check(cx, inp, out, ob):
        # only the definedness / exception / signature obligations of the path matter here; the functional
        # obligations belong to the source property
        return None
    sc.check = check
    sc.budget_s = min(getattr(sc, "budget_s", 60), 45)
    return sc


def jobs(tier, seed):
    n = 25 if tier == "quick" else 120
    J = []
    for src in SOURCES:
        H = importlib.import_module("harness." + src)
        js = H.jobs("quick", seed)
        step = max(1, len(js) // n)
        picked = js[seed % step::step][:n]
        if src == "c05":
            picked = [j for j in js if j["family"] == "empty"] + picked      # empty and degenerate containers, always
        for j in picked:
            J.append({"family": src + "/" + j["family"], "args": j["args"]})
    return J
