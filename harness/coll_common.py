"""Scenarios over the real collider classes (distance3d.colliders), the AABB
functions (distance3d.containment) and the containment predicates
(distance3d.containment_test): C03, C04, C13, C14."""
import itertools

import numpy as np

from symx.harness import (Scenario, AND, OR, NOT, IMPLIES, DOT, SUB, ADD, SCALE, NORM2, ABS, SQRT, close,
                          vec_close, vec_eq, is_symbolic, MAX)
from oracles import shapes as SH
from oracles import prims as PR


def signed_perms():
    out = []
    for perm in itertools.permutations(range(3)):
        for signs in itertools.product((1.0, -1.0), repeat=3):
            R = [[0.0] * 3 for _ in range(3)]
            for i, p in enumerate(perm):
                R[i][p] = signs[i]
            det = (R[0][0] * (R[1][1] * R[2][2] - R[1][2] * R[2][1]) - R[0][1] * (R[1][0] * R[2][2] - R[1][2] * R[2][0])
                   + R[0][2] * (R[1][0] * R[2][1] - R[1][1] * R[2][0]))
            if det > 0:
                out.append(R)
    return out


R0 = signed_perms()        # the 24 proper signed permutation matrices (exact in float64)
X, Y, Z = [1.0, 0.0, 0.0], [0.0, 1.0, 0.0], [0.0, 0.0, 1.0]

DIR_LINES = [   # d(t) = d0 + t*d1, never the zero vector
    ([1.0, 0.0, 0.0], [0.0, 1.0, 0.0]),       # in the xy-plane, through +x
    ([0.0, 0.0, 1.0], [1.0, 1.0, 0.0]),       # through +z exactly
    ([0.0, 0.0, -1.0], [0.0, 1.0, 0.0]),      # through -z, yz-plane
    ([1.0, -1.0, 0.5], [0.0, 1.0, -0.5]),     # through +x at t=1
    ([0.5, 0.25, -1.0], [-1.0, 2.0, 1.0]),    # generic
    ([0.0, 1.0, 0.0], [1.0, 0.0, 1.0]),       # through +y
]
TRANSLATIONS = [[0.0, 0.0, 0.0], [0.5, -0.25, 2.0], [-100.0, 250.0, 0.125]]


def pose_of(args, P):
    """(R, t) from scenario args: fixed signed permutation or R1 rotation by parameter 'a'."""
    t = args.get("t", [0.0, 0.0, 0.0])
    if t == "sym":
        t = [P["tx"], P["ty"], P["tz"]]
    if "rot_axis" in args:
        c, s = PR.half_angle(P["a"])
        R = PR.rot_about_axis(args["rot_axis"], c, s)
        if "r0" in args:
            R = PR.matmul3(R, R0[args["r0"]])
        return R, t
    return R0[args.get("r0", 0)], t


class ColliderScenario(Scenario):
    timeout_ms = 8000
    budget_s = 60
    max_decisions = 300

    def __init__(self, prop, args):
        self.prop = prop
        self.args = args
        self.shape = SH.Shape(args["shape"])
        self.params = self._params()
        inner = self.shape if self.shape.type != "margin" else SH.Shape(args["shape"]["inner"])
        self.inner = inner
        t = args.get("t", [0.0, 0.0, 0.0])
        self.L = max(1.0, self.shape.size_scale(), 1000.0 if t == "sym" else max(abs(x) for x in t))

    def _params(self):
        p = []
        if "rot_axis" in self.args:
            p.append(("a", -3.0, 3.0))
        if "dir_line" in self.args:
            p.append(("t", -3.0, 3.0))
        if self.args.get("t") == "sym":
            p += [("tx", -1000.0, 1000.0), ("ty", -1000.0, 1000.0), ("tz", -1000.0, 1000.0)]
        return p

    def collider(self, cx, R, t):
        import distance3d.colliders as C
        return self.shape.make(C, cx, R, t)


# ---------------------------------------------------------------- C03
class SupportScenario(ColliderScenario):
    def build(self, cx):
        R, t = pose_of(self.args, cx.P)
        if "dir_line" in self.args:
            d0, d1 = DIR_LINES[self.args["dir_line"]]
            d = ADD(d0, SCALE(cx.P["t"], d1))
        else:
            d = self.args["dir"]
        return {"R": R, "t": t, "d": d}

    def call(self, cx, inp):
        col = self.collider(cx, inp["R"], inp["t"])
        if "start_idx" in self.args:
            col._support_function.first_idx = self.args["start_idx"]
        p = col.support_function(cx.arr(inp["d"]))
        out = [p, col.first_vertex(), col.center()]
        if self.args.get("second_dir") is not None:
            out.append(col.support_function(cx.arr(self.args["second_dir"])))
        return out

    def _support_obl(self, ob, name, inp, p, d):
        R, t = inp["R"], inp["t"]
        L = self.L
        shape = self.shape
        dmax = 6.0
        tolv = 1e-9 * L * dmax
        if shape.type == "margin":
            m = shape.spec["margin"]
            n = SQRT(NORM2(d))
            # p - m*d/|d| must be the inner shape's support point
            q_in = to_local_scaled(R, t, p, d, m, n)
            dl = SH.matvec(SH.transpose(R), d)
            val = DOT(SUB(list(p), t), d) - m * n
            ob.require(name + "_member", exact=self.inner.member(q_in, 0.0), tol=self.inner.member(q_in, 1e-9 * L))
            ob.require(name + "_extreme", exact=self.inner.support_is(val, dl, 0.0), tol=self.inner.support_is(val, dl, tolv))
            return
        q = SH.to_local(R, t, p)
        dl = SH.matvec(SH.transpose(R), d)
        val = DOT(q, dl)
        ob.require(name + "_member", exact=shape.member(q, 0.0), tol=shape.member(q, 1e-9 * L))
        ob.require(name + "_extreme", exact=shape.support_is(val, dl, 0.0), tol=shape.support_is(val, dl, tolv))

    def check(self, cx, inp, out, ob):
        R, t = inp["R"], inp["t"]
        L = self.L
        self._support_obl(ob, "support", inp, out[0], inp["d"])
        for name, p in (("first_vertex", out[1]), ("center", out[2])):
            q = SH.to_local(R, t, p)
            ob.require(name + "_member", exact=self.inner.member(q, 0.0), tol=self.inner.member(q, 1e-9 * L))
        if len(out) > 3:
            self._support_obl(ob, "support2", inp, out[3], self.args["second_dir"])


def to_local_scaled(R, t, p, d, m, n):
    """local coordinates of p - m*d/n"""
    w = [pi - ti - m * di / n for pi, ti, di in zip(list(p), t, d)]
    return SH.matvec(SH.transpose(R), w)


# ---------------------------------------------------------------- C04
class AabbScenario(ColliderScenario):
    def build(self, cx):
        R, t = pose_of(self.args, cx.P)
        return {"R": R, "t": t}

    def call(self, cx, inp):
        col = self.collider(cx, inp["R"], inp["t"])
        return col.aabb()

    def check(self, cx, inp, out, ob):
        R, t = inp["R"], inp["t"]
        L = self.L
        tol = 1e-9 * L
        Rt = SH.transpose(R)
        m = self.shape.spec["margin"] if self.shape.type == "margin" else 0.0
        for k in range(3):
            e = [0.0, 0.0, 0.0]
            e[k] = 1.0
            dl_hi = SH.matvec(Rt, e)
            dl_lo = [-c for c in dl_hi]
            hi = out[k][1] - t[k] - m
            lo = t[k] - out[k][0] - m
            ob.require("hi_%d" % k, exact=self.inner.support_is(hi, dl_hi, 0.0), tol=self.inner.support_is(hi, dl_hi, tol))
            ob.require("lo_%d" % k, exact=self.inner.support_is(lo, dl_lo, 0.0), tol=self.inner.support_is(lo, dl_lo, tol))


# ---------------------------------------------------------------- C13
PRED = {"sphere": "points_in_sphere", "capsule": "points_in_capsule", "ellipsoid": "points_in_ellipsoid",
        "disk": "points_in_disk", "cone": "points_in_cone", "cylinder": "points_in_cylinder",
        "box": "points_in_box", "mesh": "points_in_convex_mesh"}


class ContainScenario(ColliderScenario):
    """Query point fully symbolic (3 reals); optional extra fixed points in the batch."""

    def _params(self):
        p = ColliderScenario._params(self)
        T = self.args.get("range", 3.0)
        return p + [("px", -T, T), ("py", -T, T), ("pz", -T, T)]

    def build(self, cx):
        R, t = pose_of(self.args, cx.P)
        pts = [[cx.P["px"], cx.P["py"], cx.P["pz"]]]
        for extra in self.args.get("extra_points", []):
            pts.append(ADD(SH.matvec(R, extra), t))     # given in the local frame
        # the symbolic point is expressed relative to the shape's position
        pts[0] = ADD(pts[0], t)
        order = self.args.get("order", 0)
        if order and len(pts) > 1:
            pts = pts[1:order + 1] + [pts[0]] + pts[order + 1:]
        return {"R": R, "t": t, "pts": pts, "sym_index": (order if len(pts) > 1 else 0)}

    def call(self, cx, inp):
        import distance3d.containment_test as CT
        s, T = self.shape.spec, self.shape.type
        R, t = inp["R"], inp["t"]
        pose = cx.arr(SH.pose_rows(R, t))
        pts = cx.arr(inp["pts"])
        f = getattr(CT, PRED[T])
        if T == "sphere":
            r = f(pts, cx.arr(t), s["radius"])
        elif T == "capsule":
            r = f(pts, pose, s["radius"], s["height"])
        elif T == "ellipsoid":
            r = f(pts, pose, cx.arr(s["radii"]))
        elif T == "disk":
            r = f(pts, cx.arr(t), s["radius"], cx.arr([R[0][2], R[1][2], R[2][2]]))
        elif T == "cone":
            r = f(pts, pose, s["radius"], s["height"])
        elif T == "cylinder":
            r = f(pts, pose, s["radius"], s["length"])
        elif T == "box":
            r = f(pts, pose, cx.arr(s["size"]))
        elif T == "mesh":
            V, Tr = SH.MESHES[s["mesh"]]
            r = f(pts, pose, cx.arr(V), np.array(Tr, dtype=int))
        out = list(r)
        # the library's own point_to_<shape> distance for the symbolic point (where one exists in closed form)
        import distance3d.distance as D
        p = cx.arr(inp["pts"][inp["sym_index"]])
        dist = None
        if T == "cylinder":
            dist = D.point_to_cylinder(p, pose, s["radius"], s["length"])[0]
        elif T == "disk":
            dist = D.point_to_disk(p, cx.arr(t), s["radius"], cx.arr([R[0][2], R[1][2], R[2][2]]))[0]
        elif T == "box":
            dist = D.point_to_box(p, pose, cx.arr(s["size"]))[0]
        self._dist = dist
        return out + ([dist] if dist is not None else [])

    def check(self, cx, inp, out, ob):
        R, t = inp["R"], inp["t"]
        L = self.L
        delta = 1e-9 * L
        n = len(inp["pts"])
        dist = out[n] if len(out) > n else None
        out = out[:n]
        ob.require("batch_length", exact=(len(out) == n))
        if dist is not None:
            r = out[inp["sym_index"]]
            q = SH.to_local(R, t, inp["pts"][inp["sym_index"]])
            ob.require("agrees_with_point_distance",
                       exact=AND(IMPLIES(r, dist == 0), IMPLIES(NOT(r), dist > 0)),
                       tol=AND(IMPLIES(r, dist <= delta), IMPLIES(NOT(r), OR(dist > 0, self.shape.member(q, delta)))))
        for i, p in enumerate(inp["pts"]):
            q = SH.to_local(R, t, p)
            r = out[i]
            ob.require("true_implies_inside_%d" % i, exact=IMPLIES(r, self.shape.member(q, 0.0)),
                       tol=IMPLIES(r, self.shape.member(q, delta)))
            ob.require("false_implies_outside_%d" % i, exact=IMPLIES(NOT(r), NOT(self.shape.member(q, 0.0))),
                       tol=IMPLIES(NOT(r), NOT(self.shape.member(q, -delta))))


# ---------------------------------------------------------------- C14
class UpdatePoseScenario(ColliderScenario):
    """Collider built at pose 0, then update_pose(pose_i) for a sequence of
    poses (each a fresh array or an item of a pose stack), interleaved with
    queries; every observable must equal that of a fresh collider at the last
    pose.  Translations of the poses are symbolic."""

    def _params(self):
        n = len(self.args["poses"])
        p = []
        for i in range(n):
            p += [("x%d" % i, -1000.0, 1000.0), ("y%d" % i, -1000.0, 1000.0), ("z%d" % i, -1000.0, 1000.0)]
        if "dir_line" in self.args:
            p.append(("t", -3.0, 3.0))
        return p

    def build(self, cx):
        poses = []
        for i, r0 in enumerate(self.args["poses"]):
            poses.append((R0[r0], [cx.P["x%d" % i], cx.P["y%d" % i], cx.P["z%d" % i]]))
        if "dir_line" in self.args:
            d0, d1 = DIR_LINES[self.args["dir_line"]]
            d = ADD(d0, SCALE(cx.P["t"], d1))
        else:
            d = self.args.get("dir", [0.5, 0.25, -1.0])
        return {"poses": poses, "d": d}

    def _observe(self, cx, col, d):
        return [col.support_function(cx.arr(d)), col.aabb(), col.center(), col.first_vertex(), col.collider2origin()]

    def call(self, cx, inp):
        poses = inp["poses"]
        R, t = poses[0]
        col = self.collider(cx, R, t)
        how = self.args.get("how", "fresh")
        stack = cx.arr([SH.pose_rows(Ri, ti) for (Ri, ti) in poses])
        obs_mid = []
        for i in range(1, len(poses)):
            if how == "stack":
                col.update_pose(stack[i])
            else:
                col.update_pose(cx.arr(SH.pose_rows(*poses[i])))
            if self.args.get("interleave", True) and i < len(poses) - 1:
                obs_mid.append(self._observe(cx, col, inp["d"]))
        got = self._observe(cx, col, inp["d"])
        fresh = self.collider(cx, *poses[-1])
        want = self._observe(cx, fresh, inp["d"])
        return [got, want]

    def check(self, cx, inp, out, ob):
        got, want = out
        L = max(self.L, 1000.0)
        names = ["support", "aabb", "center", "first_vertex", "collider2origin"]
        for n, g, w in zip(names, got, want):
            if n == "support":
                # the support point is not unique at tie directions: compare what C03 specifies, the projection
                pg, pw = DOT(list(g), inp["d"]), DOT(list(w), inp["d"])
                ob.require("same_support_projection", exact=(pg == pw), tol=close(pg, pw, 1e-9 * L * 6.0))
                continue
            gf = list(np.asarray(g, dtype=object).flat)
            wf = list(np.asarray(w, dtype=object).flat)
            ob.require("same_" + n, exact=AND(len(gf) == len(wf), vec_eq(gf, wf)),
                       tol=AND(len(gf) == len(wf), vec_close(gf, wf, 1e-9 * L)))
