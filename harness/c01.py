"""C01 — GJK distance query (Jolt flavour) on polytope pairs."""
import itertools
import random

from symx.harness import Scenario, AND, OR, DOT, SUB, ADD, SCALE, CROSS, NORM2, ABS, close, vec_eq

from . import gjk_common as GC

FUNCTIONS = ["distance3d.gjk.gjk_distance_jolt (= gjk.gjk = gjk.gjk_distance)", "_distance_loop", "get_closest_point_to_origin",
             "closest_point_line/triangle/tetrahedron", "origin_outside_of_tetrahedron_planes", "get_barycentric_coordinates_line/plane/tetrahedron",
             "calculate_closest_points", "update_simplex_ypq", "max_y_length_squared",
             "colliders.ConvexHullVertices/Box/MeshGraph.support_function", "geometry.convert_box_to_vertices", "mesh.hill_climb_mesh_extreme"]
STUBS = ["numba dispatcher contract at the Python->kernel boundary"]
OUTSIDE = ["sphere, ellipsoid, capsule, cylinder, cone, disk, ellipse and Margin colliders (radicals nested across GJK iterations: measured out of reach, DESIGN §3); their support mappings are covered by C03",
           "placements not on a sweep", "rounding"]
BOUNDS = {"quick": "10 polytope pairs (box, tetrahedron, octahedron, cube mesh, triangle, segment, point; hull/Box/MeshGraph colliders) x 4 of 8 one-parameter sweeps each (translations through identical/coplanar/touching placements, rotations), <=128 support evaluations, <=1500 decisions per path",
          "thorough": "all 144 ordered corpus pairs x 8 sweeps"}
WALL_BUDGET = {"quick": 300, "thorough": 600}
EXPECTED_EXCEPTIONS = ()


class ClosestPointsUnit(Scenario):
    """One step of the reconstruction `calculate_closest_points(Y, P, Q, n)` from an ARBITRARY final simplex
    (the unit, not the GJK run that produced it): n-1 vertices of Y = P - Q on the {-1,0,1}^3 lattice, the last on a
    line (parameter t) - either through lattice points or through two of the other vertices, which makes the
    simplex exactly degenerate for every t.  The near-degenerate band 0 < |Y0Y1 x Y0Y2|^2 < 1e-6 (resp. volume) is
    assumed away: there the fallback is an approximation whose error only the GJK invariant bounds."""
    prop = "C01"
    timeout_ms = 8000
    budget_s = 40
    max_decisions = 300
    params = [("t", -3.0, 3.0)]

    def __init__(self, args):
        self.args = args

    def _pts(self, P):
        a = self.args
        Y = [list(p) for p in a["base"]]
        Y.insert(a["pos"], ADD(a["p0"], SCALE(P["t"], a["u"])))
        return Y

    def assume(self, cx):
        Y = self._pts(cx.P)
        if len(Y) == 3:
            den = NORM2(CROSS(SUB(Y[1], Y[0]), SUB(Y[2], Y[0])))
            return [OR(den == 0, den >= 1e-6)]
        if len(Y) == 4:
            vol = DOT(SUB(Y[1], Y[0]), CROSS(SUB(Y[2], Y[0]), SUB(Y[3], Y[0])))
            return [OR(vol >= 1e-3, vol <= -1e-3)]
        den = NORM2(SUB(Y[1], Y[0]))
        return [OR(den == 0, den >= 1e-6)]

    @staticmethod
    def _float_image_in_domain(Y):
        """The assumption of assume(), evaluated literally on the floats the compiled code actually received (the code's
        own denominator d00*d11-d01^2 carries round-off of the order eps*d00*d11, so in the band either branch may be taken)."""
        Y = [[float(x) for x in p] for p in Y]
        if len(Y) == 3:
            den = float(NORM2(CROSS(SUB(Y[1], Y[0]), SUB(Y[2], Y[0]))))
            return not (0.0 < den < 1e-6)
        if len(Y) == 4:
            return abs(float(DOT(SUB(Y[1], Y[0]), CROSS(SUB(Y[2], Y[0]), SUB(Y[3], Y[0]))))) >= 1e-3
        den = float(NORM2(SUB(Y[1], Y[0])))
        return not (0.0 < den < 1e-6)

    def build(self, cx):
        Y = self._pts(cx.P)
        Q = [list(q) for q in self.args["Q"]][:len(Y)]
        Pp = [ADD(y, q) for y, q in zip(Y, Q)]
        return {"Y": Y, "P": Pp, "Q": Q}

    def call(self, cx, inp):
        import distance3d.gjk._gjk_jolt as J
        n = len(inp["Y"])
        pad = [[0.0, 0.0, 0.0]] * (4 - n)
        Y, P, Q = cx.arr(inp["Y"] + pad), cx.arr(inp["P"] + pad), cx.arr(inp["Q"] + pad)
        a, b = J.calculate_closest_points(Y, P, Q, n)
        if n == 2:
            lam = list(J.get_barycentric_coordinates_line(Y[0], Y[1]))
        elif n == 3:
            lam = list(J.get_barycentric_coordinates_plane(Y[0], Y[1], Y[2]))
        else:
            lam = list(J.get_barycentric_coordinates_tetrahedron(Y[0], Y[1], Y[2], Y[3]))
        return [list(a), list(b), lam]

    def check(self, cx, inp, out, ob):
        a, b, lam = out
        Y, P, Q = inp["Y"], inp["P"], inp["Q"]
        n = len(Y)
        if not cx.symbolic and not self._float_image_in_domain(Y):
            return      # the float image of an exact witness left the assumed set (near-degenerate band, see class docstring)
        scale2 = 1.0
        for p in Y + Q:
            scale2 = scale2 + NORM2(p)
        tol = 1e-9 * scale2
        sm = 0.0
        ca, cb = [0.0, 0.0, 0.0], [0.0, 0.0, 0.0]
        for l, p, q in zip(lam, P, Q):
            sm = sm + l
            ca = ADD(ca, SCALE(l, p))
            cb = ADD(cb, SCALE(l, q))
        ob.require("weights_sum_1", exact=(sm == 1.0), tol=close(sm, 1.0, 1e-9))
        # a and b are the SAME affine combination of the pre-images (so a is in aff(P), b in aff(Q), a - b in aff(Y))
        ob.require("a_is_combination_of_P", exact=vec_eq(a, ca), tol=AND(*[close(x, y, tol) for x, y in zip(a, ca)]))
        ob.require("b_is_combination_of_Q", exact=vec_eq(b, cb), tol=AND(*[close(x, y, tol) for x, y in zip(b, cb)]))
        y = SUB(a, b)
        if n == 4:
            ob.require("difference_is_origin", exact=vec_eq(y, [0.0, 0.0, 0.0]), tol=(NORM2(y) <= tol))
            return
        # a - b is the minimum-norm point of the affine hull of Y: orthogonal to every edge.  For an exactly
        # degenerate simplex the edges are parallel and the condition is that of the line they span.  Two coincident
        # points (n = 2) have no edge: the result must then be that point.
        edges = [SUB(Y[i], Y[0]) for i in range(1, n)]
        if n == 3:
            edges.append(SUB(Y[2], Y[1]))
        ob.require("difference_orthogonal_to_hull", exact=AND(*[DOT(y, e) == 0 for e in edges]),
                   tol=AND(*[ABS(DOT(y, e)) <= tol for e in edges]))


def make(family, args):
    if family.startswith("closest_points_unit"):
        return ClosestPointsUnit(args)
    return GC.JoltDistance("C01", args)


def unit_jobs(tier, seed):
    rnd = random.Random(4100 + seed)
    LAT = list(itertools.product([-1.0, 0.0, 1.0], repeat=3))
    DIRS = [d for d in LAT if any(d)]
    J = []
    m = 40 if tier == "quick" else 400
    for n in (2, 3, 4):
        for kind in (("line", "degenerate") if n == 3 else ("line",)):
            for _ in range(m if n == 3 else max(3, m // 3)):
                base = [list(rnd.choice(LAT)) for _ in range(n - 1)]
                pos = rnd.randrange(n)
                if kind == "degenerate":
                    if base[0] == base[1]:
                        continue
                    p0, u = base[0], list(SUB(base[1], base[0]))
                else:
                    p0, u = list(rnd.choice(LAT)), list(rnd.choice(DIRS))
                Q = [list(rnd.choice(LAT)) for _ in range(4)]
                J.append({"family": "closest_points_unit_n%d_%s" % (n, kind),
                          "args": {"base": base, "p0": p0, "u": u, "pos": pos, "Q": Q}})
    return J


def jobs(tier, seed):
    return GC.pair_jobs(tier, seed) + unit_jobs(tier, seed)
