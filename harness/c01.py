"""C01 — GJK distance query (Jolt flavour) on polytope pairs."""
from . import gjk_common as GC

FUNCTIONS = ["distance3d.gjk.gjk_distance_jolt (= gjk.gjk = gjk.gjk_distance)", "_distance_loop", "get_closest_point_to_origin",
             "closest_point_line/triangle/tetrahedron", "origin_outside_of_tetrahedron_planes", "get_barycentric_coordinates_line/plane/tetrahedron",
             "calculate_closest_points", "update_simplex_ypq", "max_y_length_squared",
             "colliders.ConvexHullVertices/Box/MeshGraph.support_function", "geometry.convert_box_to_vertices", "mesh.hill_climb_mesh_extreme"]
STUBS = ["numba dispatcher contract at the Python->kernel boundary"]
OUTSIDE = ["sphere, ellipsoid, capsule, cylinder, cone, disk, ellipse and Margin colliders (radicals nested across GJK iterations: measured out of reach, DESIGN §3); their support mappings are covered by C03",
           "placements not on a sweep", "rounding"]
BOUNDS = {"quick": "10 polytope pairs (box, tetrahedron, octahedron, cube mesh, triangle, segment, point; hull/Box/MeshGraph colliders) x 4 of 8 one-parameter sweeps each (translations through identical/coplanar/touching placements, rotations), <=128 support evaluations, <=1500 decisions per path",
          "thorough": "all 144 ordered corpus pairs x 8 sweeps"}
WALL_BUDGET = {"quick": 300, "thorough": 600}
EXPECTED_EXCEPTIONS = ()


def make(family, args):
    return GC.JoltDistance("C01", args)


def jobs(tier, seed):
    return GC.pair_jobs(tier, seed)
