"""C16 — hydroelastic contact forces: action-reaction, symmetry, frame invariance, broad-phase agreement.

Claimed in part: the wrench algebra with fully symbolic contact data, and the
whole contact_forces / find_contact_surface pipeline on micro-bodies of 1-2
corpus tetrahedra (one-parameter sweeps).  The 5 % discretisation statement on
factory meshes is outside."""
import types

import numpy as np

from symx.harness import (Scenario, AND, OR, NOT, IMPLIES, DOT, SUB, ADD, SCALE, CROSS, NORM2, ABS, close,
                          vec_close, vec_eq, is_symbolic)
from oracles import prims as PR
from oracles import shapes as SH
from harness.c15 import TETS
from harness.coll_common import R0

FUNCTIONS = ["distance3d.hydroelastic_contact.contact_forces", "find_contact_surface (use_aabb_trees False/True)", "accumulate_wrenches",
             "_transform_wrenches", "contact_surface_forces", "compute_contact_force", "RigidBody.express_in / tetrahedra_points / com / aabbs / aabb_tree (cache invalidation)",
             "ContactSurface", "utils.adjoint_from_transform / cross_product_matrix / invert_transform / transform_points",
             "aabb_tree.all_aabbs_overlap / AabbTree", "tetrahedral_mesh_aabbs / center_of_mass_tetrahedral_mesh / tetrahedral_mesh_volumes",
             "and everything listed under C15 for the pair intersection"]
STUBS = ["np.linalg.pinv / solve -> exact inverse (adjugate)", "open3d -> stub module", "np.arctan2 -> ordering-only Angle"]
OUTSIDE = ["intersection flag where the bodies merely touch (contact area <= 1e-9): reported as its own obligation class, known finding K07", "bodies from the make_* factories and the 5 % discretisation clause (whole-program: thousands of tetrahedron pairs)", "rounding"]
BOUNDS = {"quick": "wrench algebra: <=2 contacts with fully symbolic centre/force (12 reals) + symbolic frame translation at 4 signed-permutation rotations; pipeline: micro-bodies of 1-2 tetrahedra, body 2 at a rational rotated pose, body 1 translated along a line (1 real, |t| <= 2); histories: (b1,b2),(b2,b1),move b2 in place,(b1,b2) against fresh bodies, and the three-body history (b1,b2),(b2,b3 in a signed-permutation frame),move,(b1,b2) on |t| <= 0.3",
          "thorough": "more poses, common rigid motions, all rotations for the algebra"}
WALL_BUDGET = {"quick": 300, "thorough": 600}
EXPECTED_EXCEPTIONS = ()

X, Y, Z = [1.0, 0.0, 0.0], [0.0, 1.0, 0.0], [0.0, 0.0, 1.0]


class WrenchAlgebra(Scenario):
    """accumulate_wrenches on arbitrary contact data: the world-frame forces must be opposite,
    and must be the contact-frame force rotated by the frame's rotation."""
    prop = "C16"
    timeout_ms = 10000
    budget_s = 60

    def __init__(self, args):
        self.args = args
        n = args["n"]
        p = []
        for i in range(n):
            for c in "xyz":
                p.append(("c%d%s" % (i, c), -10.0, 10.0))
                p.append(("f%d%s" % (i, c), -10.0, 10.0))
        p += [("px", -1000.0, 1000.0), ("py", -1000.0, 1000.0), ("pz", -1000.0, 1000.0)]
        self.params = p

    def build(self, cx):
        n = self.args["n"]
        coms = [[cx.P["c%d%s" % (i, c)] for c in "xyz"] for i in range(n)]
        forces = [[cx.P["f%d%s" % (i, c)] for c in "xyz"] for i in range(n)]
        R = R0[self.args["r0"]]
        t = [cx.P["px"], cx.P["py"], cx.P["pz"]]
        return {"coms": coms, "forces": forces, "R": R, "t": t}

    def call(self, cx, inp):
        from distance3d.hydroelastic_contact._forces import accumulate_wrenches
        cs = types.SimpleNamespace(contact_forces=cx.arr(inp["forces"]), contact_coms=cx.arr(inp["coms"]),
                                   frame2world=cx.arr(SH.pose_rows(inp["R"], inp["t"])))
        b1 = types.SimpleNamespace(com=cx.arr([0.25, 0.0, -0.5]))
        b2 = types.SimpleNamespace(com=cx.arr([1.0, 0.5, 0.25]))
        w12, w21 = accumulate_wrenches(cs, b1, b2)
        return [w12, w21]

    def check(self, cx, inp, out, ob):
        w12, w21 = list(out[0]), list(out[1])
        f12, f21 = w12[:3], w21[:3]
        ob.require("action_equals_minus_reaction", exact=vec_eq(f12, [-x for x in f21]),
                   tol=vec_close(f12, [-x for x in f21], 1e-6))
        total = [0.0, 0.0, 0.0]
        for f in inp["forces"]:
            total = ADD(total, f)
        want = SH.matvec(inp["R"], total)
        ob.require("world_force_is_rotated_contact_force", exact=vec_eq(f21, want), tol=vec_close(f21, want, 1e-6))


def micro_body(H, cx, names, M, E=1.0):
    """RigidBody of the corpus tetrahedra `names` (disjoint copies placed side by side), pose M."""
    V, T, pot = [], [], []
    for k, nm in enumerate(names):
        verts, eps = TETS[nm]
        off = len(V)
        for v in verts:
            V.append([v[0] + 2.0 * k, v[1], v[2]])
        T.append([off, off + 1, off + 2, off + 3])
        pot.extend(eps)
    R, t = M
    rb = H.RigidBody(cx.arr(SH.pose_rows(R, t)), cx.arr(V), np.array(T, dtype=int), cx.arr(pot))
    rb.youngs_modulus = E
    return rb


class MicroPipeline(Scenario):
    prop = "C16"
    timeout_ms = 10000
    budget_s = 150
    max_decisions = 2500
    max_paths = 2000

    def __init__(self, args):
        self.args = args
        self.params = PR.sweep_params(args["sweep"], 2.0)

    def build(self, cx):
        M1 = PR.motion(self.args["sweep"], cx.P)
        M2 = (self.args.get("R2", PR.IDENT[0]), self.args.get("t2", [0.0, 0.0, 0.0]))
        return {"M1": M1, "M2": M2}

    def bodies(self, cx, inp, common=None):
        import distance3d.hydroelastic_contact as H
        M1, M2 = inp["M1"], inp["M2"]
        if common is not None:
            Rc, tc = common
            M1 = (PR.matmul3(Rc, M1[0]), ADD(SH.matvec(Rc, M1[1]), tc))
            M2 = (PR.matmul3(Rc, M2[0]), ADD(SH.matvec(Rc, M2[1]), tc))
        b1 = micro_body(H, cx, self.args["a"], M1, self.args.get("E1", 1.0))
        b2 = micro_body(H, cx, self.args["b"], M2, self.args.get("E2", 1.0))
        return b1, b2

    @staticmethod
    def spied(H, ba, bb):
        """contact_forces(ba, bb) plus the ContactSurface it handed to accumulate_wrenches (observation only)."""
        import distance3d.hydroelastic_contact._interface as I
        seen = []
        orig = I.accumulate_wrenches

        def spy(cs, r1, r2):
            seen.append(cs)
            return orig(cs, r1, r2)
        I.accumulate_wrenches = spy
        try:
            res = H.contact_forces(ba, bb)
        finally:
            I.accumulate_wrenches = orig
        return res, (seen[0] if seen else None)

    @staticmethod
    def cs_total(cs):
        """World-frame total of the per-polygon contact forces (rotated by the frame's R here, not by the library's
        _transform_wrenches, see K03) and the total contact area."""
        if cs is None or not cs.intersection:
            return [0.0, 0.0, 0.0, 0.0]
        fs = [list(f) for f in cs.contact_forces]
        f = [sum(x[k] for x in fs) for k in range(3)]
        R = [list(r)[:3] for r in list(cs.frame2world)[:3]]
        return SH.matvec(R, f) + [sum(list(cs.contact_areas))]

    def call(self, cx, inp):
        import distance3d.hydroelastic_contact as H
        mode = self.args["mode"]
        b1, b2 = self.bodies(cx, inp)
        out = {}

        def total(d):
            # world-frame contact forces from the details (rotated properly by transform_directions; does not go
            # through _transform_wrenches, see K03) and the total contact area
            if not d:
                return [0.0, 0.0, 0.0, 0.0]
            fs = d["contact_forces"]
            return [sum(f[k] for f in fs) for k in range(3)] + [sum(list(d["contact_areas"]))]
        if mode == "forces":
            (hit, w12, w21), cs = self.spied(H, b1, b2)
            (hit_r, w12r, w21r), cs_r = self.spied(H, b1, b2)      # repeated on the re-expressed bodies
            c1, c2 = self.bodies(cx, inp)
            (hit_s, w12s, w21s), cs_s = self.spied(H, c2, c1)      # swapped
            out = {"hit": bool(hit), "w12": w12, "w21": w21, "hit_r": bool(hit_r), "w12r": w12r, "w21r": w21r,
                   "hit_s": bool(hit_s), "w12s": w12s, "w21s": w21s, "tot": self.cs_total(cs), "tot_s": self.cs_total(cs_s),
                   "tot_r": self.cs_total(cs_r)}
        elif mode == "motion":
            (hit, w12, w21), cs = self.spied(H, b1, b2)
            Rc = R0[self.args["rc"]]
            tc = self.args["tc"]
            m1, m2 = self.bodies(cx, inp, (Rc, tc))
            (hit_m, w12m, w21m), cs_m = self.spied(H, m1, m2)
            out = {"hit": bool(hit), "w12": w12, "w21": w21, "hit_m": bool(hit_m), "w12m": w12m, "w21m": w21m,
                   "tot": self.cs_total(cs), "tot_m": self.cs_total(cs_m)}
        elif mode == "history":
            # interleaved calls on the SAME objects: (b1,b2), (b2,b1) re-expresses b2 in b1's frame, then b2 is moved
            # IN PLACE (as the library's own examples do), then (b1,b2) again; must equal fresh bodies at the final poses
            hit1, w12_1, w21_1 = H.contact_forces(b1, b2)
            com_before = b1.com
            if not self.args.get("third"):
                H.contact_forces(b2, b1)
            # ... or against a third body in a genuinely different frame: b2 is re-expressed there (the three-body
            # history leaves out the swapped call to fit more paths into the budget)
            if self.args.get("third"):
                b3 = micro_body(H, cx, self.args["a"], (R0[7], [0.5, 0.25, -0.25]), 1.0)
                H.contact_forces(b2, b3)
            v = self.args.get("move", [0.0, 0.0, 0.0625])
            b2.body2origin_[:3, 3] += cx.arr(v)
            hit3, w12_3, w21_3, det3_ = H.contact_forces(b1, b2, return_details=True)
            M1, M2 = inp["M1"], inp["M2"]
            # after the second call b2 lives in b1's frame (= M2's frame after the first call): moving its origin by v
            # in the world moves the body by v
            f1 = micro_body(H, cx, self.args["a"], M1, self.args.get("E1", 1.0))
            # b2 now lives in b3's frame; moving that frame's origin by v moves the body by v in the world
            f2 = micro_body(H, cx, self.args["b"], (M2[0], ADD(M2[1], v)), self.args.get("E2", 1.0))
            hit_f, w12_f, w21_f, det_f = H.contact_forces(f1, f2, return_details=True)
            tp = b1.tetrahedra_points

            out = {"hit": bool(hit3), "w12": w12_3, "w21": w21_3, "hit_f": bool(hit_f), "w12f": w12_f, "w21f": w21_f,
                   "tot": total(det3_), "tot_f": total(det_f), "com": b1.com, "tp": tp}
        elif mode == "broad":
            from distance3d.hydroelastic_contact._interface import find_contact_surface
            cs_b = find_contact_surface(b1, b2, use_aabb_trees=False)
            c1, c2 = self.bodies(cx, inp)
            if self.args.get("touch_trees", True):
                c1.aabb_tree, c2.aabb_tree          # history: the trees were already materialised (e.g. by aabb_tree queries)
            cs_t = find_contact_surface(c1, c2, use_aabb_trees=True)
            out = {"pairs_brute": sorted(zip([int(i) for i in cs_b.intersecting_tetrahedra1], [int(i) for i in cs_b.intersecting_tetrahedra2])),
                   "pairs_tree": sorted(zip([int(i) for i in cs_t.intersecting_tetrahedra1], [int(i) for i in cs_t.intersecting_tetrahedra2])),
                   "hit_b": bool(cs_b.intersection), "hit_t": bool(cs_t.intersection)}
        self._out = out
        return out

    def observable(self, out):
        return [out.get("hit"), out.get("hit_b"), [list(p) for p in out.get("pairs_brute", [])]]

    @staticmethod
    def same_flag(ob, name, h1, h2, area1, area2):
        """Flags must agree.  A disagreement where the call that reports a contact found a total contact area of at
        most 1e-9 (the bodies merely touch: the flag is a tie there) is reported under its own name (K07)."""
        if h1 == h2:
            ob.require(name, exact=True)
            return
        tiny = (area1 if h1 else area2) <= 1e-9
        ob.require(name, exact=tiny)
        ob.require(name + "_touching", exact=NOT(tiny))

    def check(self, cx, inp, out, ob):
        mode = self.args["mode"]
        if mode == "broad":
            ob.require("tree_and_brute_force_same_pairs", exact=(out["pairs_brute"] == out["pairs_tree"] and out["hit_b"] == out["hit_t"]))
            return
        f12, f21 = list(out["w12"][:3]), list(out["w21"][:3])
        scale = 1.0
        tolf = 1e-6
        if mode == "history":
            ob.require("history_same_flag_as_fresh", exact=(out["hit"] == out["hit_f"]))
            ob.require("history_same_total_force_and_area_as_fresh", exact=vec_eq(out["tot"], out["tot_f"]),
                       tol=vec_close(out["tot"], out["tot_f"], tolf))
            # cached centre of mass equals the direct volume-weighted centroid of the current tetrahedra
            tp = out["tp"]
            acc, tot = [0.0, 0.0, 0.0], 0.0
            for t in tp:
                a, b, c, d = [list(x) for x in t]
                vol = ABS(DOT(SUB(b, a), CROSS(SUB(c, a), SUB(d, a))))
                cen = [0.25 * (a[k] + b[k] + c[k] + d[k]) for k in range(3)]
                acc = ADD(acc, SCALE(vol, cen))
                tot = tot + vol
            ob.require("cached_com_is_current", exact=vec_eq(SCALE(tot, list(out["com"])), acc),
                       tol=vec_close(SCALE(tot, list(out["com"])), acc, 1e-9))
            return
        ob.require("action_equals_minus_reaction", exact=vec_eq(f12, [-x for x in f21]),
                   tol=vec_close(f12, [-x for x in f21], tolf))
        if not out["hit"]:
            ob.require("no_intersection_zero_wrenches", exact=AND(*[x == 0 for x in list(out["w12"]) + list(out["w21"])]))
        if mode == "forces":
            self.same_flag(ob, "repeat_same_flag", out["hit"], out["hit_r"], out["tot"][3], out["tot_r"][3])
            ob.require("repeat_reproduces", exact=AND(vec_eq(list(out["w12"]), list(out["w12r"])), vec_eq(list(out["w21"]), list(out["w21r"]))),
                       tol=AND(vec_close(list(out["w12"]), list(out["w12r"]), tolf), vec_close(list(out["w21"]), list(out["w21r"]), tolf)))
            self.same_flag(ob, "swap_same_flag", out["hit"], out["hit_s"], out["tot"][3], out["tot_s"][3])
            # the same relation on the per-polygon forces of the details, which do not pass through _transform_wrenches
            # (K03 distorts the wrench of whichever call has a displaced second body - in the swapped call that is
            # the swept body): total force negated, total area unchanged
            ts = [-x for x in out["tot_s"][:3]] + [out["tot_s"][3]]
            ob.require("swap_negates_detail_force_total_keeps_area", exact=vec_eq(out["tot"], ts), tol=vec_close(out["tot"], ts, tolf))
            ob.require("swap_swaps_forces", exact=AND(vec_eq(f12, list(out["w21s"][:3])), vec_eq(f21, list(out["w12s"][:3]))),
                       tol=AND(vec_close(f12, list(out["w21s"][:3]), tolf), vec_close(f21, list(out["w12s"][:3]), tolf)))
        if mode == "motion":
            Rc = R0[self.args["rc"]]
            self.same_flag(ob, "motion_same_flag", out["hit"], out["hit_m"], out["tot"][3], out["tot_m"][3])
            ob.require("motion_rotates_forces", exact=AND(vec_eq(SH.matvec(Rc, f12), list(out["w12m"][:3])),
                                                          vec_eq(SH.matvec(Rc, f21), list(out["w21m"][:3]))),
                       tol=AND(vec_close(SH.matvec(Rc, f12), list(out["w12m"][:3]), tolf),
                               vec_close(SH.matvec(Rc, f21), list(out["w21m"][:3]), tolf)))


def make(family, args):
    if family == "wrench_algebra":
        return WrenchAlgebra(args)
    return MicroPipeline(args)


def jobs(tier, seed):
    J = []
    for n in (1, 2):
        for r0 in ([0, 7, 13, 22] if tier == "quick" else range(24)):
            J.append({"family": "wrench_algebra", "args": {"n": n, "r0": r0}})
    sweeps = [{"kind": "T1", "u": Z, "o": [0.125, 0.125, 0.0]},
              {"kind": "T1", "u": X, "o": [0.0, 0.0, 0.25]},
              {"kind": "T1", "u": [1.0, 1.0, 0.0], "o": [0.0, 0.0, 0.375], "R": PR.RZ345}]
    pairs = [(["corner"], ["corner_b"]), (["cube_top"], ["regular"]), (["corner", "flat"], ["regular"])]
    poses2 = [(PR.IDENT[0], [0.0, 0.0, 0.0]), (PR.RZ345, [0.25, 0.0, 0.125]), (PR.RGEN, [0.0, 0.25, 0.0])]
    for pi, (a, b) in enumerate(pairs):
        for si, sw in enumerate(sweeps):
            if tier == "quick" and (pi + si) % 2 == 1:
                continue
            R2, t2 = poses2[(pi + si) % 3]
            base = {"a": a, "b": b, "sweep": sw, "R2": R2, "t2": t2}
            J.append({"family": "forces", "args": dict(base, mode="forces")})
            if si == 0 or tier != "quick":
                J.append({"family": "history", "args": dict(base, mode="history")})
                # narrow sweep: the bodies overlap for all |t| <= 0.3, so every explored path exercises a contact
                J.append({"family": "history3", "args": dict(base, sweep=dict(sw, range=0.3), mode="history", third=True)})
            J.append({"family": "broad_phase", "args": dict(base, mode="broad")})
            if tier != "quick" or (pi + si) % 4 == 0:
                J.append({"family": "common_motion", "args": dict(base, mode="motion", rc=7, tc=[0.5, -1.0, 2.0])})
    return J
