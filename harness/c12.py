"""C12 — results are symmetric in the arguments and invariant under rigid motion; distances scale.

Metamorphic obligations over PAIRS of symbolic executions on the same sweep variable."""
from symx.harness import (Scenario, AND, OR, NOT, DOT, SUB, ADD, SCALE, NORM2, ABS, close, vec_close, vec_eq)
from . import dist_common as DC
from . import gjk_common as GC
from .coll_common import R0
from oracles import prims as PR
from oracles import shapes as SH

FUNCTIONS = ["every function of distance3d.distance claimed in C10/C11 (argument swap for the symmetric-kind pairs, common rigid motion, uniform scaling)",
             "distance3d.gjk.gjk_distance_jolt on polytope pairs (swap, common rigid motion)",
             "distance3d.gjk.gjk_nesterov_accelerated_distance / gjk_distance_original (common rigid motion, swap) on polytope pairs"]
STUBS = []
OUTSIDE = ["EPA / MPR penetration (C07/C08) under motion", "Boolean tests (their consistency is decided against independent ground truth in C02)",
           "returned points (only scalar outputs are compared: optima are not unique on the degenerate placements the sweeps pass through)", "smooth colliders", "rounding"]
BOUNDS = {"quick": "per distance function 1 base pair x 3 sweeps x {swap (where the signature allows), 2 rigid motions from the 24 signed permutations x dyadic translations up to 1e3, uniform scale s symbolic in [1e-2,1e2]}; GJK: 4 polytope pairs x 2 sweeps x {swap, motion}",
          "thorough": "all corpus pairs and sweeps"}
WALL_BUDGET = {"quick": 300, "thorough": 600}
EXPECTED_EXCEPTIONS = ()
ASSUMPTIONS = ["distance functions: direction cosines between the primitives' axes/normals/edges are not strictly inside (0,1e-2) of 0 or 1 (the epsilon bands excluded by C11: the value is not the true distance there)"]

MOTIONS = [(R0[7], [0.5, -0.25, 2.0]), (R0[13], [-1000.0, 250.0, 0.125]), (R0[22], [3.0, 3.0, -3.0])]
SYMMETRIC = {"line_to_line", "line_segment_to_line_segment", "plane_to_plane", "triangle_to_triangle", "rectangle_to_rectangle"}


class DistMeta(DC.DistScenario):
    budget_s = 90

    def __init__(self, func, a, b, sweep, rel, move="b"):
        DC.DistScenario.__init__(self, "C12", func, a, b, sweep, "feas", move)
        self.rel = rel
        if rel["kind"] == "scale":
            self.params = list(self.params) + [("s", 0.01, 100.0)]

    def assume(self, cx):
        # the returned distance is the true distance only outside the functions' epsilon bands (C11's exclusion);
        # inside them neither symmetry nor invariance of the value is claimed
        return list(PR.sweep_assumptions(self.sweep, cx.P)) + self.band_assumptions(cx)

    def call(self, cx, inp):
        A, B = inp["A"], inp["B"]
        f = self._fn()
        base = f(*(A.args(cx) + B.args(cx)))
        k = self.rel["kind"]
        if k == "swap":
            other = f(*(B.args(cx) + A.args(cx)))
        elif k == "motion":
            M = MOTIONS[self.rel["m"]]
            other = f(*(A.moved(M).args(cx) + B.moved(M).args(cx)))
        else:
            s = cx.P["s"]
            other = f(*(scaled(A, s).args(cx) + scaled(B, s).args(cx)))
        return [base[0], other[0]]

    def check(self, cx, inp, out, ob):
        d1, d2 = out
        L = self.L
        k = self.rel["kind"]
        if k == "scale":
            s = cx.P["s"]
            ob.require("distance_scales", exact=(d2 == s * d1), tol=close(d2, s * d1, 1e-6 * L * 100.0))
        else:
            t = 1e-6 * max(L, 1000.0 if k == "motion" else L)
            ob.require("distance_invariant_under_" + k, exact=(d1 == d2), tol=close(d1, d2, t))


def scaled(S, s):
    """Uniformly scaled copy of a primitive."""
    k = S.kind
    sc = lambda v: [s * c for c in v]
    if k == "point":
        return PR.Point(sc(S.p))
    if k == "line":
        return PR.Line(sc(S.p), S.d)
    if k == "segment":
        return PR.Segment(sc(S.s), sc(S.e))
    if k == "plane":
        return PR.Plane(sc(S.p), S.n)
    if k == "triangle":
        return PR.Triangle([sc(p) for p in S.pts])
    if k == "rectangle":
        return PR.Rectangle(sc(S.c), S.axes, sc(S.lengths))
    if k == "box":
        return PR.Box(S.R, sc(S.t), sc(S.size))
    if k == "disk":
        return PR.Disk(sc(S.c), s * S.radius, S.n)
    if k == "circle":
        return PR.Circle(sc(S.c), s * S.radius, S.n)
    if k == "ellipsoid":
        return PR.Ellipsoid(S.R, sc(S.t), sc(S.radii))
    if k == "cylinder":
        return PR.Cylinder(S.R, sc(S.t), s * S.radius, s * S.length)
    raise KeyError(k)


class PairMeta(GC.PairScenario):
    budget_s = 150

    def call(self, cx, inp):
        import distance3d.colliders as C
        import distance3d.gjk as G
        algo = self.args.get("algo", "jolt")

        def dist(a, b):
            if algo == "jolt":
                return G.gjk_distance_jolt(a, b)[0]
            if algo == "original":
                return G.gjk_distance_original(a, b)[0]
            return G.gjk_nesterov_accelerated_distance(a, b)
        a, b = self.A.make(C, cx, inp["MA"]), self.B.make(C, cx, inp["MB"])
        d1 = dist(a, b)
        rel = self.args["rel"]
        if rel["kind"] == "swap":
            a2, b2 = self.A.make(C, cx, inp["MA"]), self.B.make(C, cx, inp["MB"])
            d2 = dist(b2, a2)
        else:
            Rc, tc = MOTIONS[rel["m"]]

            def comp(M):
                return (PR.matmul3(Rc, M[0]), ADD(SH.matvec(Rc, M[1]), tc))
            a2, b2 = self.A.make(C, cx, comp(inp["MA"])), self.B.make(C, cx, comp(inp["MB"]))
            d2 = dist(a2, b2)
        return [d1, d2]

    def check(self, cx, inp, out, ob):
        d1, d2 = out
        k = self.args["rel"]["kind"]
        t = 1e-5 * max(self.L, 1000.0 if k == "motion" else self.L)
        if self.args.get("algo", "jolt") != "jolt":
            t = 2e-3 * self.L
        ob.require("distance_invariant_under_" + k, exact=(d1 == d2), tol=close(d1, d2, t))


def make(family, args):
    if family.startswith("gjk:"):
        return PairMeta("C12", args)
    return DistMeta(family.split(":")[0], args["a"], args["b"], args["sweep"], args["rel"], args.get("move", "b"))


def jobs(tier, seed):
    J = []
    sweeps = [DC.SWEEPS_Q[0], DC.SWEEPS_Q[3], DC.SWEEPS_Q[5], DC.SWEEPS_Q[9]] if tier == "quick" else DC.SWEEPS_Q
    for fn, (ka, kb, _) in DC.FUNCS.items():
        As, Bs = DC.CORPUS[ka], DC.CORPUS[kb]
        pairs = [(As[-1], Bs[-1])] if tier == "quick" else [(a, b) for a in As for b in Bs]     # the non-cubic / tilted corpus entries
        for (a, b) in pairs:
            for si, sw in enumerate(sweeps):
                rels = [{"kind": "motion", "m": si % 3}]
                if fn in SYMMETRIC:
                    rels.append({"kind": "swap"})
                if sw["kind"] == "T1" and (tier != "quick" or si == 0):
                    rels.append({"kind": "scale"})
                if tier != "quick":
                    rels.append({"kind": "motion", "m": (si + 1) % 3})
                for rel in rels:
                    J.append({"family": fn + ":" + rel["kind"], "args": {"a": a, "b": b, "sweep": sw, "rel": rel, "move": "b"}})
    P = GC.POLY_CORPUS
    gpairs = [(0, 0), (0, 1), (1, 2), (3, 4)] if tier == "quick" else [(i, j) for i in range(8) for j in range(8)]
    for pi, (i, j) in enumerate(gpairs):
        for si in ((1, 4) if tier == "quick" else range(GC.N_SWEEPS_QUICK - 1)):
            for rel in ({"kind": "swap"}, {"kind": "motion", "m": (pi + si) % 3}):
                for algo in (("jolt",) if tier == "quick" or pi % 2 else ("jolt", "nesterov")):
                    J.append({"family": "gjk:%s:%s" % (algo, rel["kind"]),
                              "args": {"a": P[i], "b": P[j], "sweep": GC.SWEEPS[si], "a_pose": pi % 2, "rel": rel, "algo": algo}})
    if tier == "quick":
        J.append({"family": "gjk:nesterov:motion", "args": {"a": P[0], "b": P[1], "sweep": GC.SWEEPS[0], "a_pose": 0, "rel": {"kind": "motion", "m": 0}, "algo": "nesterov"}})
        J.append({"family": "gjk:original:swap", "args": {"a": P[0], "b": P[0], "sweep": GC.SWEEPS[0], "a_pose": 0, "rel": {"kind": "swap"}, "algo": "original"}})
    return J
