"""Scenarios for the narrow phase on polytope pairs: C01 (Jolt distance),
C02 (Boolean tests), C09 (alternative distance algorithms), C19 (termination),
C07/C08 (penetration).  Collider A is fixed, collider B is moved by a sweep."""
import itertools

import numpy as np

from symx.harness import (Scenario, AND, OR, NOT, IMPLIES, DOT, SUB, ADD, SCALE, NORM2, ABS, SQRT, close,
                          vec_close, vec_eq, is_symbolic, MAX, MIN)
from symx import core
from oracles import shapes as SH
from oracles import prims as PR

X, Y, Z = [1.0, 0.0, 0.0], [0.0, 1.0, 0.0], [0.0, 0.0, 1.0]

# flat / low-dimensional hulls (local frame)
FLAT = {
    "point": [[0.0, 0.0, 0.0]],
    "segment": [[-0.5, 0.0, 0.0], [0.5, 0.0, 0.0]],
    "triangle": [[0.0, 0.0, 0.0], [1.0, 0.0, 0.0], [0.0, 1.0, 0.0]],
    "square": [[-0.5, -0.5, 0.0], [0.5, -0.5, 0.0], [0.5, 0.5, 0.0], [-0.5, 0.5, 0.0]],
}


class Poly:
    """A polytope collider spec: {"type": "box", "size": [...]}, {"type": "mesh"|"hull", "mesh": name},
    {"type": "flat", "pts": name}; optional "dup": duplicate first vertex."""

    def __init__(self, spec):
        self.spec = spec
        self.type = spec["type"]
        self.shape = SH.Shape(spec) if self.type != "flat" else None

    def local_vertices(self):
        if self.type == "flat":
            v = [list(p) for p in FLAT[self.spec["pts"]]]
            s = self.spec.get("scale", 1.0)
            v = [[s * c for c in p] for p in v]
            if self.spec.get("dup"):
                v = v + [v[0]]
            return v
        return self.shape.local_vertices()

    def world_vertices(self, M):
        return [PR.apply_motion(M, v) for v in self.local_vertices()]

    def make(self, C, cx, M):
        R, t = M
        if self.type == "flat":
            return C.ConvexHullVertices(cx.arr(self.world_vertices(M)))
        return self.shape.make(C, cx, R, t)

    def scale(self):
        return max(1.0, max(abs(c) for v in self.local_vertices() for c in v) * 2)

    def member(self, M, p, tol):
        """p (world) in the polytope moved by M."""
        R, t = M
        q = SH.to_local(R, t, p)
        if self.type == "flat":
            k = self.spec["pts"]
            s = self.spec.get("scale", 1.0)
            V = [[s * c for c in v] for v in FLAT[k]]
            if k == "point":
                return PR.Point(V[0]).contains(q, tol)
            if k == "segment":
                return PR.Segment(V[0], V[1]).contains(q, tol)
            if k == "triangle":
                return PR.Triangle(V).contains(q, tol)
            if k == "square":
                return AND(ABS(q[0]) <= 0.5 * s + tol, ABS(q[1]) <= 0.5 * s + tol, ABS(q[2]) <= tol)
        if self.type == "box":
            return AND(*[ABS(c) <= 0.5 * sz + tol for c, sz in zip(q, self.spec["size"])])
        return self.shape.in_hull(q, tol)

    def strictly_inside(self, M, x, delta):
        """x at least delta inside (3D bodies only)."""
        R, t = M
        q = SH.to_local(R, t, x)
        if self.type == "box":
            return AND(*[ABS(c) <= 0.5 * sz - delta for c, sz in zip(q, self.spec["size"])])
        if self.type == "flat":
            return False
        conds = []
        for n, off in self.shape.facets():
            nn = sum(c * c for c in n) ** 0.5
            conds.append(DOT(n, q) <= off - delta * nn)
        return AND(*conds)

    def is_solid(self):
        return self.type != "flat"


POLY_CORPUS = [
    {"type": "box", "size": [1.0, 1.0, 1.0]},
    {"type": "hull", "mesh": "tetra"},
    {"type": "hull", "mesh": "octa"},
    {"type": "mesh", "mesh": "cube"},
    {"type": "flat", "pts": "triangle"},
    {"type": "flat", "pts": "segment"},
    {"type": "flat", "pts": "point"},
    {"type": "box", "size": [1.0, 0.5, 2.0]},
    {"type": "mesh", "mesh": "tetra"},
    {"type": "hull", "mesh": "cube", "dup": True},
    {"type": "flat", "pts": "square"},
    {"type": "mesh", "mesh": "octa"},
    {"type": "box", "size": [100.0, 100.0, 100.0]},
    {"type": "mesh", "mesh": "tetra_off"},       # 13: vertex centroid off the mesh-frame origin (MPR uses center())
]

SWEEPS = [
    {"kind": "T1", "u": X, "o": [0.0, 0.0, 0.0]},                       # through identical placement / full overlap
    {"kind": "T1", "u": [1.0, 1.0, 0.0], "o": [0.0, 0.0, 1.0]},         # face-face coplanar contact for unit boxes
    {"kind": "T1", "u": Z, "o": [0.25, 0.125, 0.0]},
    {"kind": "T1", "u": [1.0, -2.0, 0.5], "o": [0.5, 0.0, -0.25]},
    {"kind": "T1", "u": X, "o": [0.0, 0.25, 0.5], "R": PR.RZ345},      # B rotated about z (3-4-5)
    {"kind": "T1", "u": [0.0, 1.0, 1.0], "o": [0.5, 0.0, 0.0], "R": PR.RGEN},   # B in general orientation
    {"kind": "T1", "u": Y, "o": [1.0, 0.0, 0.0]},                       # sliding along a touching face
    {"kind": "T1", "u": Z, "o": [0.0, 0.0, 0.0], "R": PR.RX51213},
    {"kind": "T1", "u": X, "o": [0.0, 0.25, 0.125], "range": 400.0},     # far apart: up to / beyond the default clipping distance
    {"kind": "R1", "axis": Z, "center": [0.0, 0.0, 0.0], "o": [1.5, 0.0, 0.0]},          # thorough only
    {"kind": "R1", "axis": X, "center": [0.0, 0.0, 0.0], "o": [0.0, 0.0, 1.0]},          # thorough only
    {"kind": "T2", "u": X, "v": Y, "o": [0.0, 0.0, 0.75]},                                  # thorough only
]
N_SWEEPS_QUICK = 9

A_POSES = [PR.IDENT, ([[0.0, -1.0, 0.0], [1.0, 0.0, 0.0], [0.0, 0.0, 1.0]], [0.25, 0.0, 0.0])]


class MaxIter(Exception):
    pass


class PairScenario(Scenario):
    timeout_ms = 10000
    budget_s = 120
    max_decisions = 1500
    max_paths = 4000
    algo = None
    support_limit = 64

    def __init__(self, prop, args):
        self.prop = prop
        self.args = args
        self.A = Poly(args["a"])
        self.B = Poly(args["b"])
        self.sweep = args["sweep"]
        self.params = PR.sweep_params(self.sweep, args.get("range", 3.0)) + self.aux_params()
        T = self.sweep.get("range", args.get("range", 3.0))
        u = self.sweep.get("u", X)
        o = self.sweep.get("o", [0, 0, 0])
        self.L = max(1.0, self.A.scale(), self.B.scale(), T * max(1.0, sum(c * c for c in u) ** 0.5) + sum(abs(c) for c in o))
        self.algo = args.get("algo", self.algo)

    def aux_params(self):
        return []

    def assume(self, cx):
        return PR.sweep_assumptions(self.sweep, cx.P)

    def build(self, cx):
        MA = A_POSES[self.args.get("a_pose", 0)]
        MB = PR.motion(self.sweep, cx.P)
        return {"MA": MA, "MB": MB}

    def colliders(self, cx, inp):
        import distance3d.colliders as C
        a = self.A.make(C, cx, inp["MA"])
        b = self.B.make(C, cx, inp["MB"])
        if self.args.get("swap"):
            return b, a
        return a, b

    def sets(self, inp):
        """(poly, motion) in call order."""
        if self.args.get("swap"):
            return (self.B, inp["MB"]), (self.A, inp["MA"])
        return (self.A, inp["MA"]), (self.B, inp["MB"])

    def count_supports(self, *cols):
        """Wrap support_function to count evaluations (C19: <= 1000) and to bound the unrolling."""
        counter = {"n": 0}
        # symbolic runs are unrolled up to 2*support_limit evaluations (an unwinding bound, reported when hit);
        # concrete replays on the real code only stop at the property's own bound
        limit = self.support_limit if is_symbolic_run() else 500

        def wrap(col):
            orig = col.support_function

            def sf(d):
                counter["n"] += 1
                if counter["n"] > 2 * limit:
                    if core.ENGINE is not None and is_symbolic_run():
                        raise core.PathAbort("bound-exceeded", "more than %d support evaluations" % (2 * limit))
                    raise MaxIter("more than %d support evaluations" % (2 * limit))
                return orig(d)
            col.support_function = sf
        for c in cols:
            wrap(c)
        return counter


def is_symbolic_run():
    from symx import runtime
    return runtime._STATE.get("ready", False)


# ---------------------------------------------------------------- C01: Jolt distance
class JoltDistance(PairScenario):
    algo = "jolt"

    def aux_params(self):
        if self.sweep.get("range", 0) >= 300:
            B = 1000.0
            return [("aux_x1", -B, B), ("aux_y1", -B, B), ("aux_z1", -B, B), ("aux_x2", -B, B), ("aux_y2", -B, B), ("aux_z2", -B, B)]
        return []

    def call(self, cx, inp):
        import distance3d.gjk as G
        a, b = self.colliders(cx, inp)
        cnt = self.count_supports(a, b)
        kw = {}
        if self.args.get("no_clip"):
            kw["max_distance_squared"] = float("inf")
        if self.algo == "jolt":
            d, pa, pb, simplex = G.gjk_distance_jolt(a, b, **kw)
        elif self.algo == "original":
            d, pa, pb, simplex = G.gjk_distance_original(a, b)
        else:
            raise KeyError(self.algo)
        self._n_support = cnt["n"]
        return [d, pa, pb]

    tol_k = 1e-5

    def observable(self, out):
        d, pa, pb = out
        if pa is None:
            return [d]
        return [d, SUB(list(pa), list(pb))]      # the points themselves are not unique when the sets overlap

    def check(self, cx, inp, out, ob):
        (SA, MA), (SB, MB) = self.sets(inp)
        d, pa, pb = out
        L = self.L
        k = self.tol_k
        if pa is None:
            # clipping is legitimate only beyond sqrt(max_distance_squared) = 316.2...: every pair of vertices must then
            # be at least that far apart minus the two diameters
            # i.e. no point x of A and y of B (6 extra free reals) are closer than 316
            P = cx.P
            x = [P["aux_x1"], P["aux_y1"], P["aux_z1"]]
            y = [P["aux_x2"], P["aux_y2"], P["aux_z2"]]
            close_pair = AND(SA.member(MA, x, 0.0), SB.member(MB, y, 0.0), NORM2(SUB(x, y)) <= 316.0 * 316.0)
            ob.require("clipped_only_if_far", exact=AND(not self.args.get("no_clip"), NOT(close_pair)))
            return
        pa, pb = list(pa), list(pb)
        w = SUB(pa, pb)
        ww = NORM2(w)
        t = k * L
        ob.require("d_nonneg", exact=d >= 0)
        ob.require("a_in_A", exact=SA.member(MA, pa, 0.0), tol=SA.member(MA, pa, t))
        ob.require("b_in_B", exact=SB.member(MB, pb, 0.0), tol=SB.member(MB, pb, t))
        ob.require("dist_consistent", exact=(ww == d * d),
                   tol=AND(ww <= (d + t) * (d + t), OR(d <= t, ww >= (d - t) * (d - t))))
        # optimality by separating-plane certificate over all vertices
        eps = 0.5 * t * d
        VA, VB = SA.world_vertices(MA), SB.world_vertices(MB)
        ex = [DOT(w, SUB(v, pa)) >= 0 for v in VA] + [DOT(w, SUB(v, pb)) <= 0 for v in VB]
        tl = [DOT(w, SUB(v, pa)) >= -eps for v in VA] + [DOT(w, SUB(v, pb)) <= eps for v in VB]
        # below the tolerance the claim |d - d_true| <= t follows from feasibility alone
        ob.require("optimal", exact=AND(*ex), tol=OR(d <= t, AND(*tl)))
        ob.require("support_evals_le_1000", exact=(self._n_support <= 1000))


def pair_jobs(tier, seed, algo=None, n_pairs_quick=10, extra=None):
    J = []
    P = POLY_CORPUS
    if tier == "quick":
        pairs = [(0, 0), (0, 1), (1, 2), (3, 0), (0, 4), (2, 5), (1, 6), (7, 3), (8, 2), (9, 0), (4, 4), (10, 1), (11, 7)]
        pairs = pairs[:n_pairs_quick]
        if n_pairs_quick >= 10:
            pairs.append((12, 12))      # large boxes (size 1e2), only on the far sweep
        sweeps = list(range(N_SWEEPS_QUICK))
    else:
        pairs = [(i, j) for i in range(len(P)) for j in range(len(P))]
        sweeps = list(range(len(SWEEPS)))
    for pi, (i, j) in enumerate(pairs):
        for si in sweeps:
            if (i == 12 or j == 12) and si != 8:
                continue
            if tier == "quick" and (pi + si + seed) % 4 not in (0, 1) and not (si == 8 and (pi % 3 == 0 or i == 12)):
                continue
            a = {"a": P[i], "b": P[j], "sweep": SWEEPS[si], "a_pose": (pi + si) % 2, "swap": (pi + si) % 3 == 2}
            if algo:
                a["algo"] = algo
            if extra:
                a.update(extra)
            fam = "%s_%s" % (P[i].get("mesh", P[i].get("pts", "box")) + ("" if P[i]["type"] != "mesh" else "mesh"),
                             P[j].get("mesh", P[j].get("pts", "box")) + ("" if P[j]["type"] != "mesh" else "mesh"))
            J.append({"family": fam, "args": a})
    return J


# ---------------------------------------------------------------- C02: Boolean tests
BOOL_ALGOS = ["jolt", "libccd", "mpr", "nesterov", "nesterov_prim"]


def call_bool(algo, a, b):
    import distance3d.gjk as G
    import distance3d.mpr as M
    if algo == "jolt":
        return G.gjk_intersection_jolt(a, b)
    if algo == "libccd":
        return G.gjk_intersection_libccd(a, b)
    if algo == "mpr":
        return M.mpr_intersection(a, b)
    if algo == "nesterov":
        return G.gjk_nesterov_accelerated_intersection(a, b)
    if algo == "nesterov_acc":
        return G.gjk_nesterov_accelerated_intersection(a, b, use_nesterov_acceleration=True)
    if algo == "nesterov_prim":
        return G.gjk_nesterov_accelerated_primitives_intersection(a, b)
    raise KeyError(algo)


class BoolTest(PairScenario):
    """answer False  =>  no point lies delta-inside both;  answer True => no plane separates with gap >= delta.
    The witness point x and the plane (n, s) are additional free variables (universally quantified)."""
    delta_k = 1e-3

    def aux_params(self):
        B = 8.0
        return [("aux_x", -B, B), ("aux_y", -B, B), ("aux_z", -B, B),
                ("aux_nx", -1.0, 1.0), ("aux_ny", -1.0, 1.0), ("aux_nz", -1.0, 1.0), ("aux_s", -B, B)]

    def call(self, cx, inp):
        a, b = self.colliders(cx, inp)
        cnt = self.count_supports(a, b)
        r = call_bool(self.algo, a, b)
        self._n_support = cnt["n"]
        return [bool(r)]

    def check(self, cx, inp, out, ob):
        (SA, MA), (SB, MB) = self.sets(inp)
        r = out[0]
        delta = self.delta_k * self.L
        P = cx.P
        if not r:
            if SA.is_solid() and SB.is_solid():
                x = [P["aux_x"], P["aux_y"], P["aux_z"]]
                ob.require("no_miss_of_clear_overlap",
                           exact=NOT(AND(SA.strictly_inside(MA, x, delta), SB.strictly_inside(MB, x, delta))))
        else:
            n = [P["aux_nx"], P["aux_ny"], P["aux_nz"]]
            s = P["aux_s"]
            VA, VB = SA.world_vertices(MA), SB.world_vertices(MB)
            sep = AND(NORM2(n) <= 1.0, AND(*[DOT(n, v) >= s + delta for v in VA]), AND(*[DOT(n, v) <= s for v in VB]))
            ob.require("no_report_of_clear_gap", exact=NOT(sep))
        ob.require("support_evals_le_1000", exact=(self._n_support <= 1000))


# ---------------------------------------------------------------- C09: alternative distance algorithms
class AltDistance(PairScenario):
    """Distance value of an alternative algorithm against a certificate: the Jolt query on the
    same path supplies candidate closest points, whose membership and optimality are PROVED
    here (so the reference distance is certified, not trusted)."""
    tol_k = 1e-3

    def call(self, cx, inp):
        import distance3d.gjk as G
        a, b = self.colliders(cx, inp)
        algo = self.algo
        if algo == "nesterov":
            r = G.gjk_nesterov_accelerated_distance(a, b)
        elif algo == "nesterov_acc":
            r = max(G.gjk_nesterov_accelerated(a, b, use_nesterov_acceleration=True)[1], 0.0)
        elif algo == "prim":
            r = G.gjk_nesterov_accelerated_primitives_distance(a, b)
        elif algo == "prim_acc":
            r = max(G.gjk_nesterov_accelerated_primitives(a, b, use_nesterov_acceleration=True)[1], 0.0)
        else:
            raise KeyError(algo)
        a2, b2 = self.colliders(cx, inp)
        d, pa, pb, _ = G.gjk_distance_jolt(a2, b2, max_distance_squared=1e300)
        return [r, d, pa, pb]

    def observable(self, out):
        return [out[0], out[1]]

    def check(self, cx, inp, out, ob):
        (SA, MA), (SB, MB) = self.sets(inp)
        r, d, pa, pb = out
        L = self.L
        t = self.tol_k * L
        pa, pb = list(pa), list(pb)
        w = SUB(pa, pb)
        ww = NORM2(w)
        tc = 1e-5 * L
        # certificate for the reference distance d
        VA, VB = SA.world_vertices(MA), SB.world_vertices(MB)
        eps = 0.5 * tc * d
        cert_ex = AND(SA.member(MA, pa, 0.0), SB.member(MB, pb, 0.0), ww == d * d, d >= 0,
                      AND(*[DOT(w, SUB(v, pa)) >= 0 for v in VA]), AND(*[DOT(w, SUB(v, pb)) <= 0 for v in VB]))
        cert_tl = AND(SA.member(MA, pa, tc), SB.member(MB, pb, tc), d >= 0,
                      ww <= (d + tc) * (d + tc), OR(d <= tc, ww >= (d - tc) * (d - tc)),
                      OR(d <= tc, AND(AND(*[DOT(w, SUB(v, pa)) >= -eps for v in VA]),
                                      AND(*[DOT(w, SUB(v, pb)) <= eps for v in VB]))))
        ob.require("reference_certified", exact=cert_ex, tol=cert_tl)
        ob.require("value_matches_true_distance", exact=(r == d), tol=close(r, d, t))


class OriginalDistance(JoltDistance):
    algo = "original"
    tol_k = 1e-3

    def call(self, cx, inp):
        import distance3d.gjk as G
        a, b = self.colliders(cx, inp)
        cnt = self.count_supports(a, b)
        res = G.gjk_distance_original(a, b)
        self._n_support = cnt["n"]
        return [res[0], res[1], res[2]]


class JoltIterations(PairScenario):
    def call(self, cx, inp):
        import distance3d.gjk._gjk_jolt as J
        a, b = self.colliders(cx, inp)
        cnt = self.count_supports(a, b)
        J.gjk_distance_jolt(a, b)
        n = cnt["n"]
        a2, b2 = self.colliders(cx, inp)
        it = J.gjk_distance_jolt_iterations(a2, b2)
        return [int(it), int(n)]

    def check(self, cx, inp, out, ob):
        ob.require("iterations_helper_follows_same_path", exact=(2 * out[0] == out[1]))


ALL_TYPES = [
    {"type": "sphere", "radius": 0.5}, {"type": "capsule", "radius": 0.25, "height": 1.0},
    {"type": "box", "size": [1.0, 0.5, 2.0]}, {"type": "ellipsoid", "radii": [1.0, 0.5, 2.0]},
    {"type": "cylinder", "radius": 0.5, "length": 2.0}, {"type": "cone", "radius": 0.5, "height": 2.0},
    {"type": "disk", "radius": 1.0}, {"type": "ellipse", "radii": [1.0, 0.5]},
    {"type": "mesh", "mesh": "tetra"}, {"type": "hull", "mesh": "octa"},
    {"type": "margin", "margin": 0.25, "inner": {"type": "box", "size": [1.0, 1.0, 1.0]}},
]


class NesterovFirstBound(Scenario):
    """One-step dispatch contract of the Nesterov modules for EVERY ordered pair of collider
    types: with upper_bound = -1e300 the real function returns after one support evaluation
    with distance = omega - inflation, which must equal the separating-axis bound
    -(h_A(-D) + h_B(D)) along its initial ray D (inflation bookkeeping included)."""
    timeout_ms = 10000
    budget_s = 60
    max_decisions = 200

    def __init__(self, prop, args):
        self.prop = prop
        self.args = args
        self.SA = SH.Shape(args["a"])
        self.SB = SH.Shape(args["b"])
        self.params = [("a", -3.0, 3.0)]
        self.L = max(1.0, self.SA.size_scale(), self.SB.size_scale(), 4.0)

    def build(self, cx):
        from harness import coll_common as CC
        c, s = PR.half_angle(cx.P["a"])
        Rs = PR.rot_about_axis(self.args["axis"], c, s)
        RA = PR.matmul3(Rs, CC.R0[self.args["r0a"]])
        RB = PR.matmul3(Rs, CC.R0[self.args["r0b"]])
        tA = SH.matvec(Rs, self.args["ta"])
        tB = SH.matvec(Rs, self.args["tb"])
        return {"RA": RA, "tA": tA, "RB": RB, "tB": tB}

    def call(self, cx, inp):
        import distance3d.colliders as C
        import distance3d.gjk as G
        a = self.SA.make(C, cx, inp["RA"], inp["tA"])
        b = self.SB.make(C, cx, inp["RB"], inp["tB"])
        f = G.gjk_nesterov_accelerated if self.args["module"] == "generic" else G.gjk_nesterov_accelerated_primitives
        res = f(a, b, upper_bound=-1e300)
        return [res[1], int(res[3])]

    def check(self, cx, inp, out, ob):
        dist, iters = out
        spec = ("sphere", "capsule", "box", "ellipsoid", "cylinder")
        both_special = self.SA.type in spec and self.SB.type in spec
        RA, RB, tA, tB = inp["RA"], inp["RB"], inp["tA"], inp["tB"]
        # the loop's ray is e_x in collider0's frame if both have specialised supports, else in the world frame
        if both_special and self.SA.type != "sphere":     # a Sphere's collider2origin() has no rotation
            D = [RA[0][0], RA[1][0], RA[2][0]]
        else:
            D = [1.0, 0.0, 0.0]
        mD = [-x for x in D]
        hA = DOT(tA, mD) + SH.support_value(self.SA, SH.matvec(SH.transpose(RA), mD))
        hB = DOT(tB, D) + SH.support_value(self.SB, SH.matvec(SH.transpose(RB), D))
        want = -(hA + hB)
        # box / cylinder specialised supports are inflated by 1e-8 / 1e-5 relative on purpose
        tol = 1e-3 * self.L
        ob.require("single_support_evaluation", exact=(iters == 0))
        ob.require("first_bound_is_support_bound", exact=(dist == want), tol=close(dist, want, tol))


# ---------------------------------------------------------------- C19: termination and finiteness
TERM_ALGOS = ["jolt_distance", "jolt_intersection", "libccd", "mpr_intersection", "mpr_penetration", "original",
              "nesterov", "nesterov_acc", "prim", "prim_acc", "epa"]


class Termination(PairScenario):
    """Every narrow-phase entry point returns within 1000 support evaluations, raises nothing
    (except EPA's capacity assertion) and returns finite values."""
    support_limit = 64

    def colliders(self, cx, inp):
        a, b = PairScenario.colliders(self, cx, inp)
        if self.args.get("same_object"):
            return a, a
        return a, b

    def call(self, cx, inp):
        import distance3d.gjk as G
        import distance3d.mpr as M
        import distance3d.epa as E
        a, b = self.colliders(cx, inp)
        if not cx.symbolic:
            self.support_limit = 1000          # concrete replay: count up to the property's own bound
        cnt = self.count_supports(*([a] if a is b else [a, b]))
        algo = self.algo
        if algo == "jolt_distance":
            r = G.gjk_distance_jolt(a, b)[:3]
        elif algo == "jolt_intersection":
            r = G.gjk_intersection_jolt(a, b)
        elif algo == "libccd":
            r = G.gjk_intersection_libccd(a, b)
        elif algo == "mpr_intersection":
            r = M.mpr_intersection(a, b)
        elif algo == "mpr_penetration":
            r = M.mpr_penetration(a, b)
        elif algo == "original":
            r = G.gjk_distance_original(a, b)[:3]
        elif algo == "nesterov":
            r = G.gjk_nesterov_accelerated(a, b)[:2]
        elif algo == "nesterov_acc":
            r = G.gjk_nesterov_accelerated(a, b, use_nesterov_acceleration=True)[:2]
        elif algo == "prim":
            r = G.gjk_nesterov_accelerated_primitives(a, b)[:2]
        elif algo == "prim_acc":
            r = G.gjk_nesterov_accelerated_primitives(a, b, use_nesterov_acceleration=True)[:2]
        elif algo == "epa":
            d, pa, pb, simplex = G.gjk_distance_jolt(a, b)
            if pa is not None and not is_symbolic(d) and d == 0.0 or (pa is not None and is_symbolic(d) and bool(d == 0)):
                n_filled = sum(1 for row in simplex if not any(isinstance(x, core._Uninit) for x in row))
                if n_filled == 4:
                    r = E.epa(simplex, a, b)[0::2]
                else:
                    r = ["simplex not a tetrahedron", n_filled]
            else:
                r = ["no overlap"]
        else:
            raise KeyError(algo)
        self._n_support = cnt["n"]
        return [r, int(cnt["n"])]

    def observable(self, out):
        return []

    def check(self, cx, inp, out, ob):
        ob.require("support_evals_le_1000", exact=(out[1] <= 1000))
        # finiteness: in the real model every value is finite unless a division by zero / negative radicand occurred,
        # which the engine reports as definedness findings; on the concrete replay check it directly
        if not cx.symbolic:
            from symx.harness import flatten
            import math
            flat = [x for x in flatten(out[0]) if isinstance(x, float)]
            ok = all(math.isfinite(x) or abs(x) > 1e300 for x in flat)
            ob.require("outputs_finite", exact=ok)


TERM_PAIRS = [
    ({"type": "box", "size": [1.0, 1.0, 1.0]}, {"type": "box", "size": [1.0, 1.0, 1.0]}),
    ({"type": "hull", "mesh": "tetra"}, {"type": "hull", "mesh": "tetra"}),
    ({"type": "flat", "pts": "square"}, {"type": "flat", "pts": "square"}),
    ({"type": "flat", "pts": "segment"}, {"type": "flat", "pts": "segment"}),
    ({"type": "flat", "pts": "point"}, {"type": "flat", "pts": "point"}),
    ({"type": "box", "size": [0.01, 0.01, 100.0]}, {"type": "hull", "mesh": "octa"}),       # needle, aspect 1e4
    ({"type": "box", "size": [100.0, 100.0, 100.0]}, {"type": "box", "size": [0.01, 0.01, 0.01]}),   # nested, 1e4 size ratio
    ({"type": "mesh", "mesh": "cubocta_raw"}, {"type": "flat", "pts": "triangle"}),
    ({"type": "flat", "pts": "triangle", "dup": True}, {"type": "mesh", "mesh": "cube"}),
]
TERM_SWEEPS = [
    {"kind": "T1", "u": X, "o": [0.0, 0.0, 0.0]},                 # through the identical placement
    {"kind": "T1", "u": [1.0, 1.0, 0.0], "o": [0.0, 0.0, 1.0]},   # coplanar / touching lattice placements
    {"kind": "T1", "u": Z, "o": [0.25, 0.125, 0.0], "R": PR.RZ345},
]


def termination_jobs(tier, seed):
    J = []
    for ai, algo in enumerate(TERM_ALGOS):
        for pi, (a, b) in enumerate(TERM_PAIRS):
            if algo.startswith("prim") and not (a["type"] == "box" and b["type"] == "box"):
                continue
            for si, sw in enumerate(TERM_SWEEPS):
                if tier == "quick" and (ai + pi + si + seed) % 3 != 0:
                    continue
                J.append({"family": algo, "args": {"a": a, "b": b, "sweep": sw, "a_pose": 0, "algo": algo}})
            if pi < 3 and (tier != "quick" or (ai + pi) % 2 == 0):
                J.append({"family": algo + ":same_object", "args": {"a": a, "b": a, "sweep": {"kind": "T1", "u": X, "o": [0.0, 0.0, 0.0]},
                                                                   "a_pose": 0, "algo": algo, "same_object": True}})
    return J


# ---------------------------------------------------------------- C07 / C08: penetration
def minkowski_facets(VA, VB0):
    """Facets (unit normal, offset) of conv{a - b}: computed once, concretely, with scipy (independent oracle)."""
    from scipy.spatial import ConvexHull
    D = np.array([[a[k] - b[k] for k in range(3)] for a in VA for b in VB0], dtype=float)
    ch = ConvexHull(D)
    seen, out = set(), []
    for eq in ch.equations:
        n, off = eq[:3], -eq[3]
        key = tuple(np.round(np.append(n, off), 9))
        if key in seen:
            continue
        seen.add(key)
        out.append(([float(x) for x in n], float(off)))
    return out


class Penetration(PairScenario):
    """EPA (on the simplex handed over by the Jolt GJK) or MPR penetration against the exact
    piecewise-linear penetration depth of the Minkowski difference (translation sweeps)."""
    support_limit = 128
    budget_s = 150
    max_decisions = 3000

    def build(self, cx):
        inp = PairScenario.build(self, cx)
        R, t = inp["MB"]
        VA = self.A.world_vertices(inp["MA"])
        VB0 = self.B.world_vertices((R, [0.0, 0.0, 0.0]))
        fa = [[float(c) for c in v] for v in VA]
        fb = [[float(c) for c in v] for v in VB0]
        inp["facets"] = minkowski_facets(fa, fb)
        inp["c"] = t
        return inp

    def depth_of(self, inp, shift):
        c = ADD(inp["c"], shift)
        return MIN(*[off - DOT(n, c) for n, off in inp["facets"]])

    def call(self, cx, inp):
        import distance3d.gjk as G
        import distance3d.mpr as M
        import distance3d.epa as E
        a, b = PairScenario.colliders(self, cx, inp)
        cnt = self.count_supports(a, b)
        if self.algo == "epa":
            # observe how many simplex points GJK ended with (it returns its whole 4x3 buffer regardless)
            import distance3d.gjk._gjk_jolt as J
            seen = {}
            orig_ccp = J.calculate_closest_points

            def spy(Y, P, Q, n_points):
                seen["n"] = int(n_points)
                return orig_ccp(Y, P, Q, n_points)
            J.calculate_closest_points = spy
            try:
                d, pa, pb, simplex = G.gjk_distance_jolt(a, b)
            finally:
                J.calculate_closest_points = orig_ccp
            overlap = bool(d == 0) if is_symbolic(d) else d == 0.0
            if not overlap:
                return ["no overlap"]
            if self.args.get("interleave", True):
                # history: another distance query happens between gjk() and epa() (collect overlaps first, resolve later)
                a3, b3 = PairScenario.colliders(self, cx, inp)
                G.gjk_distance_jolt(b3, a3)
            if seen.get("n", 4) < 4:
                # fewer than 4 valid rows: the rest of the buffer is stale or uninitialised (np.empty)
                for i in range(seen["n"], 4):
                    if any(isinstance(x, core._Uninit) for x in simplex[i]):
                        simplex[i] = simplex[seen["n"] - 1]
                mtv, faces, ok = E.epa(simplex, a, b)
                return ["epa", list(mtv), bool(ok), True]
            n_filled = sum(1 for row in simplex if not any(isinstance(x, core._Uninit) for x in row))
            if n_filled != 4:
                return ["simplex not a tetrahedron"]
            rows = [list(simplex[i]) for i in range(4)]
            vol = DOT(SUB(rows[1], rows[0]), PR.CROSS(SUB(rows[2], rows[0]), SUB(rows[3], rows[0])))
            degenerate = bool(vol == 0)         # GJK stopped with the origin on a face / edge: no tetrahedron to start from
            mtv, faces, ok = E.epa(simplex, a, b)
            return ["epa", list(mtv), bool(ok), degenerate]
        hit, depth, pdir, pos = M.mpr_penetration(a, b)
        if not hit:
            return ["no overlap"]
        return ["mpr", depth, list(pdir), list(pos)]

    def observable(self, out):
        if out[0] == "epa":
            return [out[0], NORM2(out[1]), out[2]]
        if out[0] == "mpr":
            return [out[0], out[1]]
        return [out[0]]

    def check(self, cx, inp, out, ob):
        L = self.L
        if out[0] == "epa":
            mtv, ok = out[1], out[2]
            sfx = "_degenerate_simplex" if out[3] else ""
            ob.require("epa_success_on_small_polytopes", exact=bool(ok))
            if not ok:
                return
            tol = 1e-6 * L * 4.0     # facet normals of the oracle are rounded to float64
            depth = self.depth_of(inp, [0.0, 0.0, 0.0])
            mm = NORM2(mtv)
            ob.require("mtv_length_is_penetration_depth" + sfx,
                       tol=AND(mm <= (depth + tol) * (depth + tol), OR(depth <= tol, mm >= (depth - tol) * (depth - tol))))
            after = self.depth_of(inp, mtv)
            ob.require("translated_by_mtv_touches" + sfx, tol=AND(after <= tol, after >= -tol))
        elif out[0] == "mpr":
            depth_r, pdir, pos = out[1], out[2], out[3]
            tol = 2e-3 * L
            dd = NORM2(pdir)
            ob.require("depth_nonneg", exact=(depth_r >= 0))
            ob.require("direction_unit_or_zero", exact=OR(dd == 1.0, AND(dd == 0, depth_r == 0)),
                       tol=OR(close(dd, 1.0, 1e-9), AND(dd <= 1e-18, depth_r <= 1e-9)))
            depth = self.depth_of(inp, [0.0, 0.0, 0.0])
            ob.require("depth_not_below_true_depth", tol=(depth_r >= depth - tol))
            after = self.depth_of(inp, SCALE(depth_r, pdir))
            ob.require("residual_overlap_small", tol=(after <= tol))
            (SA, MA), (SB, MB) = self.sets(inp)
            ob.require("contact_position_in_A", tol=SA.member(MA, pos, tol))
            ob.require("contact_position_in_B", tol=SB.member(MB, pos, tol))


PEN_PAIRS = [(0, 0), (0, 1), (1, 2), (3, 0), (7, 2), (8, 11)]
PEN_SWEEPS = [
    {"kind": "T1", "u": X, "o": [0.0, 0.125, 0.25], "range": 1.5},
    {"kind": "T1", "u": [1.0, 1.0, 0.0], "o": [0.0, 0.0, 0.5], "range": 1.5},
    {"kind": "T1", "u": Z, "o": [0.25, 0.125, 0.0], "R": PR.RZ345, "range": 1.5},
    {"kind": "T1", "u": [0.0, 1.0, 1.0], "o": [0.25, 0.0, 0.0], "R": PR.RGEN, "range": 1.5},
    {"kind": "T1", "u": X, "o": [0.0, 0.0, 0.0], "range": 1.5},      # through the identical placement
]


def penetration_jobs(tier, seed, algo):
    J = []
    P = POLY_CORPUS
    # thorough = the same pairs on all five sweeps with a larger budget: known findings are listed per scenario (K05.*),
    # so the scenario set is kept enumerable
    pairs = PEN_PAIRS
    for pi, (i, j) in enumerate(pairs):
        for si, sw in enumerate(PEN_SWEEPS):
            if tier == "quick" and (pi + si) % 2 == 1:      # seed-independent: known findings are listed per scenario
                continue
            J.append({"family": "%s:%d_%d" % (algo, i, j), "args": {"a": P[i], "b": P[j], "sweep": sw, "a_pose": (pi + si) % 2, "algo": algo}})
    # small colliders (lower decade of the size domain): absolute tolerances inside the algorithms must not depend on scale
    small_a, small_b = {"type": "box", "size": [0.125, 0.125, 0.125]}, {"type": "box", "size": [0.0625, 0.125, 0.03125]}
    for si, sw in enumerate([{"kind": "T1", "u": X, "o": [0.0, 0.015625, 0.03125], "range": 0.1875},
                             {"kind": "T1", "u": [0.0, 1.0, 1.0], "o": [0.03125, 0.0, 0.0], "R": PR.RGEN, "range": 0.125},
                             {"kind": "T1", "u": Z, "o": [0.03125, 0.015625, 0.0], "R": PR.RZ345, "range": 0.125}]):
        if tier == "quick" and si == 2:
            continue
        J.append({"family": "%s:small" % algo, "args": {"a": small_a, "b": small_b, "sweep": sw, "a_pose": 0, "algo": algo}})
    return J


# ---------------------------------------------------------------- coverage-directed scenes
def branch_scene_jobs(tier, algo_of_module, n_quick=16):
    """Sweeps through the placements of corpus/branch_scenes.json (found by concrete search for rarely executed
    lines of the Nesterov simplex projections).  algo_of_module: {"prim": algo, "generic": algo}."""
    import json
    import os
    path = os.path.join(os.path.dirname(os.path.dirname(os.path.abspath(__file__))), "corpus", "branch_scenes.json")
    if not os.path.exists(path):
        return []
    scenes = json.load(open(path))["scenes"]
    if tier == "quick":
        scenes = scenes[:n_quick]
    J = []
    for k, sc in enumerate(scenes):
        t = sc["t"]
        m = max(abs(c) for c in t) or 1.0
        u = [(1.0 if c > 0 else -1.0) if abs(c) >= 0.5 * m else 0.0 for c in t]
        algo = algo_of_module.get(sc["module"])
        if algo is None:
            continue
        us = [u] if tier == "quick" else [u, [u[1], u[2], u[0]], [1.0, -1.0, 0.5], [0.0, 1.0, 1.0]]
        for uu in us:
            if not any(uu):
                continue
            sweep = {"kind": "T1", "u": uu, "o": t, "R": sc["R"], "range": 0.75}
            J.append({"family": "branch_scene:%s" % algo,
                      "args": {"a": {"type": "box", "size": sc["sa"]}, "b": {"type": "box", "size": sc["sb"]}, "sweep": sweep,
                               "a_pose": 0, "swap": bool(sc["swap"]), "algo": algo}})
    return J
