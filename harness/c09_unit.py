"""C09 unit step — `project_tetra_to_origin` of the Nesterov primitives flavour from an ARBITRARY valid loop state.

The region tests of the tetrahedron projection are valid only under the loop invariant of
run_gjk_nesterov_accelerated, so the pre-state is constrained by exactly that invariant and nothing else:
  I1  (d, c, b) = simplex[0..2] is the triangle stored by origin_to_triangle: n = (c-b) x (d-b) has n.b < 0
      (non-degenerate, the origin strictly on the positive side);
  I2  the previous ray r = (n.b / n.n) n lies strictly inside that triangle (project_triangle_origin reaches
      origin_to_triangle only when both strict edge tests fail; the third edge is excluded one step earlier);
  I3  the new vertex a = simplex[3] passed the convergence / duality-gap test: a.r < r.r.
b, c, d are lattice points (coordinates in -2..2) filtered concretely by I1 and I2; a moves along a lattice line
(parameter t), I3 is assumed symbolically.  Proved per path: the returned ray is the minimum-norm point of
conv{a, b, c, d} (KKT over all four vertices + membership in the hull of the returned sub-simplex), `inside` iff
the origin is in the closed tetrahedron, and the returned sub-simplex consists of input vertices.
"""
import itertools
import random
from fractions import Fraction

from symx.harness import Scenario, AND, OR, DOT, SUB, ADD, SCALE, CROSS, NORM2, ABS, close, vec_eq

LAT2 = list(itertools.product([-2.0, -1.0, 0.0, 1.0, 2.0], repeat=3))
DIRS = [d for d in itertools.product([-1.0, 0.0, 1.0], repeat=3) if any(d)]


def _det(p, q, r):
    return DOT(p, CROSS(q, r))


def valid_triangle(b, c, d):
    """I1 and I2, concretely and exactly."""
    F = lambda v: [Fraction(x) for x in v]
    b, c, d = F(b), F(c), F(d)
    n = CROSS(SUB(c, b), SUB(d, b))
    nb = DOT(n, b)
    if not nb < 0:
        return False
    nn = DOT(n, n)
    r = [nb * x / nn for x in n]
    for p, q in ((b, c), (c, d), (d, b)):
        if not DOT(CROSS(SUB(q, p), SUB(r, p)), n) > 0:
            return False
    return True


class TetraStep(Scenario):
    prop = "C09"
    timeout_ms = 8000
    budget_s = 60
    max_decisions = 300
    params = [("t", -4.0, 4.0)]

    def __init__(self, args):
        self.args = args

    def _a(self, P):
        return ADD(self.args["p0"], SCALE(P["t"], self.args["u"]))

    def assume(self, cx):
        b, c, d = self.args["b"], self.args["c"], self.args["d"]
        n = CROSS(SUB(c, b), SUB(d, b))
        # I3: a.r < r.r with r = (n.b/n.n) n and n.b < 0  <=>  a.n > n.b
        return [DOT(self._a(cx.P), n) > DOT(n, b)]

    def build(self, cx):
        return {"a": self._a(cx.P), "b": list(self.args["b"]), "c": list(self.args["c"]), "d": list(self.args["d"])}

    def call(self, cx, inp):
        import distance3d.gjk._gjk_nesterov_accelerated_primitives as N
        tetra = cx.arr([inp["d"], inp["c"], inp["b"], inp["a"]])
        ray, n, inside = N.project_tetra_to_origin(tetra)
        return [bool(inside), list(ray), int(n), [list(tetra[i]) for i in range(min(int(n), 4))]]

    def observable(self, out):
        return out[:3]

    def check(self, cx, inp, out, ob):
        inside, ray, n, S = out
        pts = [inp["a"], inp["b"], inp["c"], inp["d"]]
        a, b, c, d = pts
        scale2 = 1.0
        for p in pts:
            scale2 = scale2 + NORM2(p)
        tol = 1e-9 * scale2
        vols = [_det(b, c, d), -_det(a, c, d), _det(a, b, d), -_det(a, b, c)]
        origin_in = OR(AND(*[v >= 0 for v in vols]), AND(*[v <= 0 for v in vols]))
        if inside:
            ob.require("inside_only_if_origin_in_tetrahedron", exact=origin_in,
                       tol=OR(AND(*[v >= -tol for v in vols]), AND(*[v <= tol for v in vols])))
            return
        rr = NORM2(ray)
        ob.require("kkt_optimal", exact=AND(*[DOT(ray, p) >= rr for p in pts]),
                   tol=AND(*[DOT(ray, p) >= rr - tol for p in pts]))
        ob.require("subsimplex_size", exact=(1 <= n <= 3 and len(S) == n))
        if not (1 <= n <= 3 and len(S) == n):
            return
        ob.require("subsimplex_of_input", exact=AND(*[OR(*[vec_eq(s, p) for p in pts]) for s in S]))
        if n == 1:
            mem_e = vec_eq(ray, S[0])
            mem_t = NORM2(SUB(ray, S[0])) <= tol
        elif n == 2:
            e, w = SUB(S[1], S[0]), SUB(ray, S[0])
            x = CROSS(w, e)
            mem_e = AND(vec_eq(x, [0.0, 0.0, 0.0]), DOT(w, e) >= 0, DOT(w, e) <= NORM2(e))
            mem_t = AND(NORM2(x) <= tol * tol, DOT(w, e) >= -tol, DOT(w, e) <= NORM2(e) + tol)
        else:
            m = CROSS(SUB(S[1], S[0]), SUB(S[2], S[0]))
            planar = DOT(SUB(ray, S[0]), m)
            sides = [DOT(CROSS(SUB(q, p), SUB(ray, p)), m) for p, q in ((S[0], S[1]), (S[1], S[2]), (S[2], S[0]))]
            mem_e = AND(planar == 0, *[s >= 0 for s in sides])
            mem_t = AND(ABS(planar) <= tol, *[s >= -tol for s in sides])
        ob.require("ray_in_returned_subsimplex", exact=mem_e, tol=mem_t)


def jobs(tier, seed):
    rnd = random.Random(9100 + seed)
    n = 60 if tier == "quick" else 600
    J, seen, tries = [], set(), 0
    while len(J) < n and tries < 200000:
        tries += 1
        b, c, d = (rnd.choice(LAT2) for _ in range(3))
        if not valid_triangle(b, c, d):
            continue
        p0, u = rnd.choice(LAT2), rnd.choice(DIRS)
        key = (b, c, d, p0, u)
        if key in seen:
            continue
        seen.add(key)
        J.append({"family": "contract:tetra_step",
                  "args": {"b": list(b), "c": list(c), "d": list(d), "p0": list(p0), "u": list(u)}})
    return J
