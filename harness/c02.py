"""C02 — Boolean collision tests never miss a clear overlap nor report a clear gap."""
from . import gjk_common as GC

FUNCTIONS = ["distance3d.gjk.gjk_intersection_jolt (+_intersection_loop, simplex solver)", "distance3d.gjk.gjk_intersection_libccd (+_refine_simplex, _line_segment, _triangle, _tetrahedron)",
             "distance3d.mpr.mpr_intersection (+_discover_portal, _refine_portal and helpers)",
             "distance3d.gjk.gjk_nesterov_accelerated_intersection", "distance3d.gjk.gjk_nesterov_accelerated_primitives_intersection (Box pairs)",
             "distance3d.minkowski.support_function / make_support_point / Simplex", "distance3d.distance.point_to_triangle"]
STUBS = []
OUTSIDE = ["smooth colliders", "placements not on a sweep", "rounding"]
BOUNDS = {"quick": "5 tests x 6 (jolt, libccd) or 3 (mpr, nesterov) polytope pairs x 4 of 8 translation sweeps (B axis-aligned and in rational rotated orientations); ground truth by free witness point (3 reals) / free separating plane (4 reals) added to the sweep parameter",
          "thorough": "all corpus pairs x all sweeps"}
WALL_BUDGET = {"quick": 300, "thorough": 600}
EXPECTED_EXCEPTIONS = ()


def make(family, args):
    return GC.BoolTest("C02", args)


def jobs(tier, seed):
    J = []
    for algo in GC.BOOL_ALGOS:
        extra = None
        base = GC.pair_jobs(tier, seed, algo=algo, n_pairs_quick=(6 if algo in ('jolt', 'libccd') else 3))
        for j in base:
            if algo == "nesterov_prim" and not (j["args"]["a"]["type"] == "box" and j["args"]["b"]["type"] == "box"):
                continue
            j["family"] = algo + ":" + j["family"]
            J.append(j)
    # MPR starts from the colliders' center(): an off-centre mesh in rotated orientations
    for si in (4, 5, 7):
        J.append({"family": "mpr:box_tetraoffmesh", "args": {"a": GC.POLY_CORPUS[0], "b": GC.POLY_CORPUS[13], "sweep": GC.SWEEPS[si],
                                                             "a_pose": 0, "swap": si == 5, "algo": "mpr"}})
    # sweeps through placements that reach rarely executed branches of the Nesterov simplex projections
    J += GC.branch_scene_jobs(tier, {"prim": "nesterov_prim", "generic": "nesterov"})
    if tier == "quick":
        # the primitives flavour only accepts boxes among the polytopes: give it every sweep on the box pairs
        P = GC.POLY_CORPUS
        for (i, k) in ((0, 7), (7, 0), (7, 7)):
            for si in range(GC.N_SWEEPS_QUICK):
                J.append({"family": "nesterov_prim:box_box", "args": {"a": P[i], "b": P[k], "sweep": GC.SWEEPS[si], "a_pose": si % 2,
                                                                       "swap": False, "algo": "nesterov_prim"}})
        # the wall budget cuts the tail of the list: round-robin over the families so that every family gets its share
        groups = {}
        for j in J:
            groups.setdefault(j["family"].split(":")[0], []).append(j)
        order, lists = [], [groups[k] for k in ("jolt", "libccd", "branch_scene", "nesterov_prim", "mpr", "nesterov") if k in groups]
        while any(lists):
            for L in lists:
                if L:
                    order.append(L.pop(0))
        J = order
    return J
