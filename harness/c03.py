"""C03 — support mappings return a point of the shape that is extreme along the query."""
from . import coll_common as CC
from oracles import shapes as SH

FUNCTIONS = ["distance3d.geometry.support_function_{sphere,ellipsoid,capsule,cylinder,cone,box,disk,ellipse}",
             "distance3d.utils.{norm_vector,transform_point,plane_basis_from_normal}",
             "distance3d.colliders.<all 10 collider classes + Margin>.{support_function,first_vertex,center}",
             "distance3d.mesh.MeshHillClimbingSupportFunction.__call__", "distance3d.mesh.hill_climb_mesh_extreme",
             "distance3d.geometry.convert_box_to_vertices"]
STUBS = ["numba dispatcher contract: eager signatures checked (ndim/layout) at the Python->kernel boundary"]
OUTSIDE = ["directions/poses not on a sweep", "zero direction (excluded by the property)", "rounding"]
BOUNDS = {"quick": "12 shapes (+Margin wrappers) x {6 direction lines d0+t*d1, t in [-3,3], at 2-3 signed-permutation poses; 3 rotation sweeps (all angles but pi) with fixed directions}; meshes: every start vertex of the cached hill-climb (covers any query history)",
          "thorough": "21 shapes x all 24 signed-permutation poses x 6 direction lines + 9 rotation sweeps"}
WALL_BUDGET = {"quick": 300, "thorough": 600}


def make(family, args):
    return CC.SupportScenario("C03", args)


def _shapes(tier):
    base = list(SH.CORPUS)
    if tier != "quick":
        base += SH.CORPUS_MORE
    out = list(base)
    out.append({"type": "mesh", "mesh": "tetra_far"})       # frame origin far outside the mesh (C03 only)
    for inner in ([SH.CORPUS[0], SH.CORPUS[3], SH.CORPUS[5], SH.CORPUS[8]] if tier == "quick" else base):
        out.append({"type": "margin", "margin": 0.25, "inner": inner})
    return out


def jobs(tier, seed):
    J = []
    fixed_dirs = [[0.0, 0.0, 1.0], [1.0, 0.0, 0.0], [0.5, 0.25, -1.0]]
    for sh in _shapes(tier):
        fam = sh["type"] if sh["type"] != "margin" else "margin_" + sh["inner"]["type"]
        r0s = [0, 7, 18] if tier == "quick" else list(range(24))
        for li in range(len(CC.DIR_LINES)):
            for k, r0 in enumerate(r0s):
                if tier == "quick" and (li + k + seed) % 3 != 0:
                    continue
                a = {"shape": sh, "r0": r0, "dir_line": li, "t": CC.TRANSLATIONS[(li + k) % 3]}
                if sh["type"] == "mesh" or (sh["type"] == "margin" and sh["inner"]["type"] == "mesh"):
                    mesh = sh["mesh"] if sh["type"] == "mesh" else sh["inner"]["mesh"]
                    if sh["type"] == "margin":
                        J.append({"family": fam, "args": a})
                        continue
                    # every vertex a real query history can leave in the cache: the vertices used by triangles
                    for start in sorted(set(i for tri in SH.MESHES[mesh][1] for i in tri)):
                        b = dict(a)
                        b["start_idx"] = start
                        J.append({"family": fam, "args": b})
                else:
                    J.append({"family": fam, "args": a})
        axes = [CC.X, CC.Y, CC.Z]
        for ai, ax in enumerate(axes):
            for di, d in enumerate(fixed_dirs):
                if tier == "quick" and (ai + di) % 3 != 0:
                    continue
                a = {"shape": sh, "rot_axis": ax, "dir": d, "t": CC.TRANSLATIONS[(ai + di) % 3], "r0": (5 * ai + di) % 24}
                J.append({"family": fam, "args": a})
    return J
