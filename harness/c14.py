"""C14 — a collider after update_pose behaves like a freshly built one at that pose."""
from . import coll_common as CC
from oracles import shapes as SH

FUNCTIONS = ["distance3d.colliders.<Box,MeshGraph,Sphere,Capsule,Ellipsoid,Cylinder,Disk,Ellipse,Cone,Margin>.update_pose",
             "...support_function / aabb / center / first_vertex / collider2origin after the update",
             "distance3d.mesh.MeshHillClimbingSupportFunction.update_pose"]
STUBS = ["numba dispatcher contract: eager signatures of the support kernels checked (ndim and C-layout) for every call coming from interpreted code, as numba's dispatcher does"]
OUTSIDE = ["GJK runs on the updated collider (see C01)", "ConvexHullVertices (update_pose not implemented)", "rounding"]
BOUNDS = {"quick": "10 collider types (+Margin) x sequences of 2-3 poses (signed-permutation rotation x FULLY symbolic translation in [-1000,1000]^3 each), pose given as a fresh array or as stack[i], queries interleaved; query direction on a line",
          "thorough": "more rotation sequences and direction lines"}
WALL_BUDGET = {"quick": 300, "thorough": 600}


def make(family, args):
    return CC.UpdatePoseScenario("C14", args)


def jobs(tier, seed):
    J = []
    shapes = [s for s in SH.CORPUS if s["type"] != "hull"]
    shapes += [{"type": "margin", "margin": 0.25, "inner": s} for s in (SH.CORPUS[0], SH.CORPUS[5], SH.CORPUS[6])]
    seqs = [[0, 7], [3, 11, 20], [5, 5]] if tier == "quick" else [[0, 7], [3, 11, 20], [5, 5], [1, 14, 9], [23, 2]]
    for sh in shapes:
        fam = sh["type"] if sh["type"] != "margin" else "margin_" + sh["inner"]["type"]
        for poses in seqs:
            for how in ("fresh", "stack"):
                for li in ([4] if tier == "quick" else [0, 1, 4]):
                    J.append({"family": fam, "args": {"shape": sh, "poses": poses, "how": how, "dir_line": li}})
    return J
