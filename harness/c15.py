"""C15 — hydroelastic contact polygons lie on the contact plane inside both tetrahedra.

Single tetrahedron pairs with linear potentials; tetrahedron 2 is moved by a
one-parameter sweep (translations through axis-aligned stacking where faces are
parallel to the contact plane, rotations)."""
import numpy as np

from symx.harness import (Scenario, AND, OR, NOT, IMPLIES, DOT, SUB, ADD, SCALE, CROSS, NORM2, ABS, close,
                          vec_close, vec_eq, is_symbolic)
from oracles import prims as PR

FUNCTIONS = ["distance3d.hydroelastic_contact.intersect_tetrahedron_pair", "contact_plane", "check_tetrahedra_intersect_contact_plane",
             "compute_contact_polygon", "make_halfplanes", "intersect_halfplanes", "intersect_two_halfplanes",
             "point_outside_of_halfplane", "cross2d", "order_points (arctan2 ordering decided exactly by quadrant + cross product)",
             "filter_unique_points", "project_polygon_to_3d", "barycentric_transforms", "compute_contact_force",
             "utils.plane_basis_from_normal"]
STUBS = ["np.linalg.pinv (4x4) and np.linalg.solve -> exact inverse by adjugate with the obligation det != 0 (LAPACK is outside the encoding)",
         "np.arctan2 on symbolic arguments -> Angle object supporting only ordering (all order_points needs)",
         "np.empty storage -> poison value: reading it in a comparison is reported (uninitialised read)",
         "open3d -> stub module (visualisation only)"]
OUTSIDE = ["find_contact_surface on factory meshes (hundreds of tetrahedra x 28 half-plane pairs each)", "rounding"]
BOUNDS = {"quick": "5 tetrahedron pairs from the corpus x 6 one-parameter sweeps (translations incl. axis-aligned stacking, rotations), Young's moduli {1e-2,1,1e2}, both argument orders",
          "thorough": "all corpus pairs x all sweeps x moduli"}
WALL_BUDGET = {"quick": 300, "thorough": 600}
EXPECTED_EXCEPTIONS = ()

# corpus tetrahedra (dyadic) with linear potentials
TETS = {
    "corner": ([[0.0, 0.0, 0.0], [1.0, 0.0, 0.0], [0.0, 1.0, 0.0], [0.0, 0.0, 1.0]], [1.0, 0.0, 0.0, 0.0]),
    "corner_b": ([[0.0, 0.0, 0.0], [1.0, 0.0, 0.0], [0.0, 1.0, 0.0], [0.0, 0.0, 1.0]], [0.0, 0.0, 0.0, 1.0]),
    "cube_slice": ([[0.0, 0.0, 0.0], [0.5, 0.5, 0.5], [0.5, -0.5, 0.5], [0.5, 0.5, -0.5]], [0.5, 0.0, 0.0, 0.0]),   # as make_tetrahedral_cube
    "regular": ([[1.0, 1.0, 1.0], [1.0, -1.0, -1.0], [-1.0, 1.0, -1.0], [-1.0, -1.0, 1.0]], [0.0, 0.0, 0.0, 1.0]),
    "flat": ([[0.0, 0.0, 0.0], [2.0, 0.0, 0.0], [0.0, 2.0, 0.0], [0.5, 0.5, 0.25]], [0.0, 0.0, 0.0, 0.25]),
    "cube_top": ([[0.0, 0.0, 0.0], [0.5, 0.5, 0.5], [-0.5, 0.5, 0.5], [0.5, -0.5, 0.5]], [0.5, 0.0, 0.0, 0.0]),     # face z=0.5 is boundary
}
X, Y, Z = [1.0, 0.0, 0.0], [0.0, 1.0, 0.0], [0.0, 0.0, 1.0]
SWEEPS = [
    {"kind": "T1", "u": Z, "o": [0.0, 0.0, 0.0]},                        # stacking along z: faces parallel to the contact plane
    {"kind": "T1", "u": X, "o": [0.0, 0.0, 0.25]},
    {"kind": "T1", "u": [1.0, 1.0, 0.0], "o": [0.0, 0.0, 0.5]},
    {"kind": "T1", "u": Z, "o": [0.25, 0.125, 0.0], "R": PR.RZ345},
    {"kind": "T1", "u": [1.0, -2.0, 0.5], "o": [0.25, 0.0, 0.0], "R": PR.RGEN},
    {"kind": "T1", "u": Z, "o": [0.0, 0.0, 0.0], "R": [[1.0, 0.0, 0.0], [0.0, -1.0, 0.0], [0.0, 0.0, -1.0]]},   # flipped: cube_top on cube_top
    {"kind": "R1", "axis": Z, "center": [0.0, 0.0, 0.0], "o": [0.25, 0.0, 0.25]},
]


def bary(T, p):
    """Barycentric coordinates of p in tetrahedron T (independent formula: ratios of signed volumes)."""
    a, b, c, d = T

    def vol(p0, p1, p2, p3):
        return DOT(SUB(p1, p0), CROSS(SUB(p2, p0), SUB(p3, p0)))
    V = vol(a, b, c, d)
    return [vol(p, b, c, d), vol(a, p, c, d), vol(a, b, p, d), vol(a, b, c, p)], V


class TetPair(Scenario):
    prop = "C15"
    timeout_ms = 10000
    budget_s = 90
    max_decisions = 1200
    max_paths = 3000

    def __init__(self, args):
        self.args = args
        self.params = PR.sweep_params(args["sweep"], 2.0) + [
            ("aux_nx", -1.0, 1.0), ("aux_ny", -1.0, 1.0), ("aux_nz", -1.0, 1.0), ("aux_s", -8.0, 8.0)]
        self.L = 4.0

    def build(self, cx):
        V1, e1 = TETS[self.args["a"]]
        V2, e2 = TETS[self.args["b"]]
        M = PR.motion(self.args["sweep"], cx.P)
        V2w = [PR.apply_motion(M, v) for v in V2]
        return {"T1": [list(v) for v in V1], "e1": list(e1), "T2": V2w, "e2": list(e2)}

    def call(self, cx, inp):
        import distance3d.hydroelastic_contact as H
        from distance3d.hydroelastic_contact._tetrahedron_intersection import intersect_tetrahedron_pair
        from distance3d.hydroelastic_contact._forces import compute_contact_force
        T1, T2 = cx.arr(inp["T1"]), cx.arr(inp["T2"])
        e1, e2 = cx.arr(inp["e1"]), cx.arr(inp["e2"])
        E1, E2 = self.args.get("E1", 1.0), self.args.get("E2", 1.0)
        X1 = H.barycentric_transforms(cx.arr([inp["T1"]]))[0]
        X2 = H.barycentric_transforms(cx.arr([inp["T2"]]))[0]
        X1 = np.ascontiguousarray(X1)
        X2 = np.ascontiguousarray(X2)
        if self.args.get("swap"):
            hit, (plane, poly) = intersect_tetrahedron_pair(T2, e2, X2, T1, e1, X1, E2, E1)
            first, ef, Ef = T2, e2, E2
        else:
            hit, (plane, poly) = intersect_tetrahedron_pair(T1, e1, X1, T2, e2, X2, E1, E2)
            first, ef, Ef = T1, e1, E1
        out = {"hit": bool(hit), "plane": plane, "poly": poly, "force": None, "area": None, "com": None, "poly2": None}
        if hit and poly is not None and len(poly) >= 3:
            com, force, area, tri = compute_contact_force(first, ef, plane, np.ascontiguousarray(poly), Ef)
            out.update({"force": force, "area": area, "com": com})
        if self.args.get("both_orders") and hit:
            hit2, (plane2, poly2) = intersect_tetrahedron_pair(T2, e2, X2, T1, e1, X1, E2, E1)
            out["hit2"] = bool(hit2)
            out["poly2"] = poly2
        self._out = out
        return out

    def observable(self, out):
        # the vertex COUNT is not observable: near-duplicate vertices are merged or kept depending on rounding
        return [out["hit"], out["area"]]

    def check(self, cx, inp, out, ob):
        L = self.L
        tol = 1e-9 * L
        T1, T2 = inp["T1"], inp["T2"]
        P = cx.P
        if not out["hit"]:
            return
        # the library's "same tetrahedron" branch returns three identical points (identical objects in the symbolic run)
        pl = out["poly"]
        same_branch = pl is not None and len(pl) == 3 and all(
            (pl[0][k] is pl[1][k] or (not is_symbolic(pl[0][k]) and not is_symbolic(pl[1][k]) and pl[0][k] == pl[1][k] == pl[2][k]))
            for k in range(3))
        sfx = "_same_branch" if same_branch else ""
        if same_branch:
            # known finding K02 covers exactly the library's criterion |d| < 10*eps (plane through the frame origin);
            # the same branch taken for any other plane is a different defect and must not be masked
            # (the equal-pressure plane is recomputed here, independently, from the two linear potentials)
            E1, E2 = self.args.get("E1", 1.0), self.args.get("E2", 1.0)
            (Ta, ea, Ea), (Tb, eb, Eb) = ((T2, inp["e2"], E2), (T1, inp["e1"], E1)) if self.args.get("swap") else ((T1, inp["e1"], E1), (T2, inp["e2"], E2))

            def field(T, e, x):
                lam, V = bary(T, x)
                return DOT(e, lam) / V
            O = [0.0, 0.0, 0.0]
            c = Ea * field(Ta, ea, O) - Eb * field(Tb, eb, O)
            g = [Ea * field(Ta, ea, ax) - Eb * field(Tb, eb, ax) - c for ax in ([1.0, 0.0, 0.0], [0.0, 1.0, 0.0], [0.0, 0.0, 1.0])]
            eps10 = 1e-9          # generous: the library's own test (10*eps) is evaluated on rounded values
            d_small = OR(NORM2(g) == 0, c * c < eps10 * eps10 * NORM2(g))
            if not bool(d_small):
                sfx = "_same_branch_for_plane_off_origin"
        # reported intersection => the tetrahedra are not separated by any plane
        n = [P["aux_nx"], P["aux_ny"], P["aux_nz"]]
        s = P["aux_s"]
        sep = AND(NORM2(n) <= 1.0, NORM2(n) >= 0.25, AND(*[DOT(n, v) >= s + 1e-6 for v in T1]), AND(*[DOT(n, v) <= s for v in T2]))
        ob.require("intersection_only_if_not_separated" + sfx, exact=NOT(sep))
        plane, poly = out["plane"], out["poly"]
        nn, d = list(plane[:3]), plane[3]
        ob.require("plane_normal_unit", exact=(NORM2(nn) == 1.0), tol=close(NORM2(nn), 1.0, 1e-9))
        verts = [list(v) for v in poly]
        ob.require("polygon_has_3_to_8_vertices", exact=(3 <= len(verts) <= 8))
        on_plane_ex, on_plane_tl, in1_ex, in1_tl, in2_ex, in2_tl = [], [], [], [], [], []
        for v in verts:
            h = DOT(nn, v) - d
            on_plane_ex.append(h == 0)
            on_plane_tl.append(close(h, 0.0, tol))
            for T, ex, tl in ((T1, in1_ex, in1_tl), (T2, in2_ex, in2_tl)):
                lam, V = bary(T, v)
                # lam_i / V >= -1e-9  <=>  lam_i * V >= -1e-9 * V^2
                ex.append(AND(*[l * V >= 0 for l in lam]))
                tl.append(AND(*[l * V >= -1e-9 * V * V for l in lam]))
        ob.require("vertices_on_contact_plane", exact=AND(*on_plane_ex), tol=AND(*on_plane_tl))
        ob.require("vertices_inside_tetrahedron1" + sfx, exact=AND(*in1_ex), tol=AND(*in1_tl))
        ob.require("vertices_inside_tetrahedron2" + sfx, exact=AND(*in2_ex), tol=AND(*in2_tl))
        # convex, consistently oriented
        k = len(verts)
        if k >= 3:
            turns = []
            for i in range(k):
                a, b, c = verts[i], verts[(i + 1) % k], verts[(i + 2) % k]
                turns.append(DOT(CROSS(SUB(b, a), SUB(c, b)), nn))
            ob.require("polygon_convex", exact=OR(AND(*[t >= 0 for t in turns]), AND(*[t <= 0 for t in turns])),
                       tol=OR(AND(*[t >= -tol for t in turns]), AND(*[t <= tol for t in turns])))
        if out["force"] is not None:
            f = list(out["force"])
            c = CROSS(f, nn)
            ob.require("force_along_normal", exact=AND(*[x == 0 for x in c]), tol=AND(*[close(x, 0.0, tol) for x in c]))
            ob.require("pressure_nonneg", exact=DOT(f, nn) >= 0, tol=DOT(f, nn) >= -tol)
            ob.require("area_nonneg", exact=out["area"] >= 0)
        if out.get("poly2") is not None or out.get("hit2") is not None:
            ob.require("order_independent_flag", exact=bool(out.get("hit2")))
            if out.get("hit2") and out["poly2"] is not None:
                v2 = [list(v) for v in out["poly2"]]
                ex = AND(AND(*[OR(*[vec_eq(a, b) for b in v2]) for a in verts]), AND(*[OR(*[vec_eq(a, b) for b in verts]) for a in v2]))
                tl = AND(AND(*[OR(*[vec_close(a, b, tol) for b in v2]) for a in verts]),
                         AND(*[OR(*[vec_close(a, b, tol) for b in verts]) for a in v2]))
                p2 = out["poly2"]
                same2 = len(p2) == 3 and all((p2[0][k] is p2[1][k]) or (not is_symbolic(p2[0][k]) and not is_symbolic(p2[1][k])
                                                                        and p2[0][k] == p2[1][k] == p2[2][k]) for k in range(3))
                ob.require("order_independent_polygon" + (sfx if sfx else ("_same_branch" if same2 else "")), exact=ex, tol=tl)


def make(family, args):
    return TetPair(args)


def jobs(tier, seed):
    J = []
    pairs = [("corner", "corner_b"), ("cube_top", "cube_top"), ("cube_slice", "regular"), ("regular", "flat"), ("corner", "cube_slice")]
    if tier != "quick":
        names = list(TETS)
        pairs = [(a, b) for a in names for b in names]
    for pi, (a, b) in enumerate(pairs):
        for si, sw in enumerate(SWEEPS):
            if tier == "quick" and sw["kind"] == "R1" and pi > 1:
                continue
            E = [(1.0, 1.0), (0.01, 100.0), (100.0, 1.0)][(pi + si) % 3]
            args = {"a": a, "b": b, "sweep": sw, "E1": E[0], "E2": E[1], "swap": (pi + si) % 4 == 3}
            J.append({"family": "%s_%s" % (a, b), "args": args})
            if (pi + si) % 3 == 0:
                args2 = dict(args)
                args2["both_orders"] = True
                args2["swap"] = False
                J.append({"family": "%s_%s_orders" % (a, b), "args": args2})
    return J
