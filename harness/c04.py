"""C04 — collider AABBs enclose the shape and are tight on every axis."""
from . import coll_common as CC
from oracles import shapes as SH

FUNCTIONS = ["distance3d.containment.{axis_aligned_bounding_box,sphere_aabb,box_aabb,cylinder_aabb,capsule_aabb,ellipsoid_aabb,disk_aabb,cone_aabb,ellipse_aabb}",
             "distance3d.colliders.<all collider classes + Margin>.aabb", "distance3d.geometry.convert_box_to_vertices"]
STUBS = []
OUTSIDE = ["hydroelastic RigidBody.aabb (see C16/C17 harness)", "poses not on a sweep", "rounding"]
BOUNDS = {"quick": "12 shapes (+Margin) x {signed-permutation poses with FULLY symbolic translation in [-1000,1000]^3; rotation sweeps about x,y,z (all angles but pi) composed with 2 base orientations}",
          "thorough": "21 shapes x the same, plus every base orientation for the rotation sweeps"}
WALL_BUDGET = {"quick": 300, "thorough": 2400}


def make(family, args):
    return CC.AabbScenario("C04", args)


def jobs(tier, seed):
    J = []
    shapes = list(SH.CORPUS) + (SH.CORPUS_MORE if tier != "quick" else [])
    shapes = shapes + [{"type": "margin", "margin": 0.25, "inner": s} for s in (shapes[:8] if tier == "quick" else shapes)]
    for sh in shapes:
        fam = sh["type"] if sh["type"] != "margin" else "margin_" + sh["inner"]["type"]
        for r0 in range(24):
            if tier == "quick" and r0 % 4 != (seed % 4):
                continue
            J.append({"family": fam, "args": {"shape": sh, "r0": r0, "t": "sym"}})
        for ai, ax in enumerate([CC.X, CC.Y, CC.Z]):
            for r0 in ([0, 9] if tier == "quick" else [0, 4, 9, 13, 17, 22]):
                J.append({"family": fam, "args": {"shape": sh, "rot_axis": ax, "r0": r0, "t": CC.TRANSLATIONS[(ai + r0) % 3]}})
    return J
