"""C04 — collider AABBs enclose the shape and are tight on every axis."""
from . import coll_common as CC
from oracles import shapes as SH

FUNCTIONS = ["distance3d.containment.{axis_aligned_bounding_box,sphere_aabb,box_aabb,cylinder_aabb,capsule_aabb,ellipsoid_aabb,disk_aabb,cone_aabb,ellipse_aabb}",
             "distance3d.colliders.<all collider classes + Margin>.aabb", "distance3d.geometry.convert_box_to_vertices", "distance3d.hydroelastic_contact.RigidBody.aabb / aabbs / aabb_tree / express_in (micro-bodies, through the real AabbTree with 'sort')", "tetrahedral_mesh_aabbs"]
STUBS = []
OUTSIDE = ["RigidBody from the make_* factories (micro-bodies of 1-3 tetrahedra are covered)", "poses not on a sweep", "rounding"]
BOUNDS = {"quick": "12 shapes (+Margin) x {signed-permutation poses with FULLY symbolic translation in [-1000,1000]^3; rotation sweeps about x,y,z (all angles but pi) composed with 2 base orientations}",
          "thorough": "21 shapes x the same, plus every base orientation for the rotation sweeps"}
WALL_BUDGET = {"quick": 300, "thorough": 600}


class RigidBodyAabb(CC.Scenario):
    """hydroelastic RigidBody.aabb() must bound the body's vertices in the world frame
    (the hydroelastic BVH uses it as a collider AABB)."""
    prop = "C04"
    timeout_ms = 8000
    budget_s = 60

    def __init__(self, args):
        self.args = args
        self.params = [("tx", -1000.0, 1000.0), ("ty", -1000.0, 1000.0), ("tz", -1000.0, 1000.0)]

    def build(self, cx):
        return {"R": CC.R0[self.args["r0"]], "t": [cx.P["tx"], cx.P["ty"], cx.P["tz"]]}

    def call(self, cx, inp):
        import distance3d.hydroelastic_contact as H
        from harness.c16 import micro_body
        rb = micro_body(H, cx, self.args["tets"], (inp["R"], inp["t"]))
        if self.args.get("history") == "express_first":
            rb.express_in(cx.arr(SH.pose_rows(CC.R0[5], [0.5, -1.0, 2.0])))
        if self.args.get("history") == "tree_then_express":
            rb.aabb()
            rb.express_in(cx.arr(SH.pose_rows(CC.R0[5], [0.5, -1.0, 2.0])))
        return rb.aabb()

    def check(self, cx, inp, out, ob):
        from harness.c15 import TETS
        from symx.harness import AND, OR, ADD, close
        V = []
        for k, nm in enumerate(self.args["tets"]):
            for v in TETS[nm][0]:
                V.append(ADD(SH.matvec(inp["R"], [v[0] + 2.0 * k, v[1], v[2]]), inp["t"]))
        tol = 1e-9 * 1000.0
        for k in range(3):
            cs = [v[k] for v in V]
            ob.require("lo_%d" % k, exact=AND(AND(*[out[k][0] <= c for c in cs]), OR(*[out[k][0] == c for c in cs])),
                       tol=AND(AND(*[out[k][0] <= c + tol for c in cs]), OR(*[close(out[k][0], c, tol) for c in cs])))
            ob.require("hi_%d" % k, exact=AND(AND(*[out[k][1] >= c for c in cs]), OR(*[out[k][1] == c for c in cs])),
                       tol=AND(AND(*[out[k][1] >= c - tol for c in cs]), OR(*[close(out[k][1], c, tol) for c in cs])))


def make(family, args):
    if family == "rigid_body":
        return RigidBodyAabb(args)
    return CC.AabbScenario("C04", args)


def jobs(tier, seed):
    J = []
    shapes = list(SH.CORPUS) + (SH.CORPUS_MORE if tier != "quick" else [])
    shapes = shapes + [{"type": "margin", "margin": 0.25, "inner": s} for s in (shapes[:8] if tier == "quick" else shapes)]
    for sh in shapes:
        fam = sh["type"] if sh["type"] != "margin" else "margin_" + sh["inner"]["type"]
        for r0 in range(24):
            if tier == "quick" and r0 % 4 != (seed % 4):
                continue
            J.append({"family": fam, "args": {"shape": sh, "r0": r0, "t": "sym"}})
        for ai, ax in enumerate([CC.X, CC.Y, CC.Z]):
            for r0 in ([0, 9] if tier == "quick" else [0, 4, 9, 13, 17, 22]):
                J.append({"family": fam, "args": {"shape": sh, "rot_axis": ax, "r0": r0, "t": CC.TRANSLATIONS[(ai + r0) % 3]}})
    for tets in (["corner"], ["cube_top", "regular"], ["corner", "flat", "cube_slice"]):
        for r0 in ([0, 7, 18] if tier == "quick" else range(24)):
            for hist in (None, "express_first", "tree_then_express"):
                J.append({"family": "rigid_body", "args": {"tets": tets, "r0": r0, "history": hist}})
    return J
