"""C06 — BVH broad phase plus narrow phase finds exactly the brute-force collisions.

Environment: a stub transform manager whose get_transform(frame, 'origin')
returns, per frame and per epoch, a signed-permutation rotation x a symbolic
translation ("any sequence of set_joint/add_transform" = arbitrary poses at
each epoch).  Real code: BoundingVolumeHierarchy, the real AabbTree under it,
the real Sphere/Box/Cylinder colliders, self_collision.detect/detect_any.
For the self-collision logic the narrow phase is a free symmetric Boolean per
unordered pair (collision => AABB overlap assumed: that is C04), whitelists
are enumerated."""
import itertools

import numpy as np

from symx.harness import (Scenario, AND, OR, NOT, IMPLIES, DOT, SUB, ADD, SCALE, NORM2, ABS, close, vec_close,
                          vec_eq, is_symbolic)
from oracles import shapes as SH
from .coll_common import R0
from .c05 import _install_stubs as _tree_stubs

FUNCTIONS = ["distance3d.broad_phase.BoundingVolumeHierarchy.add_collider / update_collider_poses / aabb_overlapping_colliders / aabb_overlapping_with_other_bvh / aabb_overlapping_with_self",
             "distance3d.self_collision.detect / detect_any", "distance3d.aabb_tree.AabbTree (real, underneath)",
             "distance3d.colliders.Sphere/Box/Cylinder.update_pose/aabb/collider2origin"]
STUBS = ["transform manager -> stub returning per frame and epoch a signed-permutation rotation x symbolic translation",
         "narrow phase inside self_collision.detect -> free symmetric Boolean per unordered pair, constrained by collision => AABB overlap",
         "_aabb_volume -> contract, aabb_overlap -> summary (as in C05)"]
OUTSIDE = ["URDF parsing, whitelist GENERATION (LinkInfo, regexes over frame names) and pytransform3d's graph search (string/regex/pointer-rich library code, not encodable here)",
           "mesh loading", "more than 3 frames", "rounding"]
BOUNDS = {"quick": "N<=3 frames (sphere/box/cylinder), 2 epochs of fully symbolic translations (9 reals per epoch) at signed-permutation rotations, query collider symbolic; self-collision: N=3 spheres with symbolic centres, all 64 whitelist configurations (self always whitelisted), narrow phase free",
          "thorough": "more rotation assignments and collider type assignments"}
WALL_BUDGET = {"quick": 300, "thorough": 600}
EXPECTED_EXCEPTIONS = ()
ASSUMPTIONS = ["narrow-phase collision implies AABB overlap (C04)", "every frame whitelists itself (as the generated whitelists do)"]

TYPES = [{"type": "sphere", "radius": 0.5}, {"type": "box", "size": [1.0, 0.5, 2.0]}, {"type": "cylinder", "radius": 0.5, "length": 2.0}]


class StubTM:
    def __init__(self):
        self.poses = {}
        self.base = None

    def add_transform(self, frm, to, T):
        self.base = (frm, T)

    def get_transform(self, frame, to):
        assert to == "origin"
        return self.poses[frame]


def ov(a, b):
    return AND(*[AND(a[k][0] <= b[k][1], a[k][1] >= b[k][0]) for k in range(3)])


class BvhScenario(Scenario):
    prop = "C06"
    timeout_ms = 10000
    budget_s = 120
    max_decisions = 3000
    max_paths = 6000
    check_definedness = False

    def __init__(self, args):
        self.args = args
        self.n = len(args["types"])
        p = []
        for e in range(args["epochs"]):
            for i in range(self.n):
                for c in "xyz":
                    p.append(("e%d_f%d_%s" % (e, i, c), -1000.0, 1000.0))
        for c in "xyz":
            p.append(("q_%s" % c, -1000.0, 1000.0))
        for i in range(args.get("other", 0)):
            for c in "xyz":
                p.append(("o%d_%s" % (i, c), -1000.0, 1000.0))
        self.params = p

    def build(self, cx):
        a = self.args
        poses = []
        for e in range(a["epochs"]):
            poses.append([(R0[a["rots"][e][i]], [cx.P["e%d_f%d_%s" % (e, i, c)] for c in "xyz"]) for i in range(self.n)])
        q = (R0[a.get("qrot", 0)], [cx.P["q_%s" % c] for c in "xyz"])
        other = [(R0[(3 * i + 1) % 24], [cx.P["o%d_%s" % (i, c)] for c in "xyz"]) for i in range(a.get("other", 0))]
        return {"poses": poses, "q": q, "other": other}

    def call(self, cx, inp):
        import distance3d.broad_phase as BP
        import distance3d.colliders as C
        if cx.symbolic:
            _tree_stubs()
        a = self.args
        tm = StubTM()
        frames = ["f%d" % i for i in range(self.n)]
        bvh = BP.BoundingVolumeHierarchy(tm, "base")
        cols = []
        for i, fr in enumerate(frames):
            R, t = inp["poses"][0][i]
            tm.poses[fr] = cx.arr(SH.pose_rows(R, t))
            col = SH.Shape(TYPES[a["types"][i]]).make(C, cx, R, t)
            cols.append(col)
            bvh.add_collider(fr, col)
        for e in range(1, a["epochs"]):
            for i, fr in enumerate(frames):
                R, t = inp["poses"][e][i]
                tm.poses[fr] = cx.arr(SH.pose_rows(R, t))
            bvh.update_collider_poses()
        last = inp["poses"][-1]
        Rq, tq = inp["q"]
        qcol = SH.Shape(TYPES[a.get("qtype", 1)]).make(C, cx, Rq, tq)
        res = bvh.aabb_overlapping_colliders(qcol, whitelist=tuple(a.get("whitelist", ())))
        out = {"hits": sorted(res.keys()), "hit_objs_ok": all(res[f] is cols[int(f[1:])] for f in res),
               "c2o": [cols[i].collider2origin() for i in range(self.n)],
               "aabbs": [cols[i].aabb() for i in range(self.n)], "qaabb": qcol.aabb()}
        self_pairs = bvh.aabb_overlapping_with_self()
        out["self_pairs"] = sorted((p[0][0], p[1][0]) for p in self_pairs)
        if a.get("other"):
            tm2 = StubTM()
            b2 = BP.BoundingVolumeHierarchy(tm2, "base2")
            oc = []
            for i, (R, t) in enumerate(inp["other"]):
                fr = "g%d" % i
                tm2.poses[fr] = cx.arr(SH.pose_rows(R, t))
                col = SH.Shape(TYPES[(i + 1) % 3]).make(C, cx, R, t)
                oc.append(col)
                b2.add_collider(fr, col)
            pairs = bvh.aabb_overlapping_with_other_bvh(b2)
            out["other_pairs"] = sorted((p[0][0], p[1][0]) for p in pairs)
            out["other_aabbs"] = [c.aabb() for c in oc]
        self._out = out
        return out

    def observable(self, out):
        return [out["hits"], [list(p) for p in out["self_pairs"]], [list(p) for p in out.get("other_pairs", [])]]

    def check(self, cx, inp, out, ob):
        a = self.args
        n = self.n
        last = inp["poses"][-1]
        # poses after update_collider_poses equal the manager's current transforms
        conds = []
        for i in range(n):
            R, t = last[i]
            want = SH.pose_rows(R if TYPES[a["types"][i]]["type"] != "sphere" else [[1.0, 0.0, 0.0], [0.0, 1.0, 0.0], [0.0, 0.0, 1.0]], t)
            got = out["c2o"][i]
            for r in range(4):
                for c in range(4):
                    conds.append(got[r][c] == want[r][c])
        ob.require("collider_poses_follow_the_manager", exact=AND(*conds))
        ob.require("payload_is_the_collider", exact=bool(out["hit_objs_ok"]))
        wl = set(a.get("whitelist", ()))
        got = set(out["hits"])
        cin, cout = [], []
        for i in range(n):
            f = "f%d" % i
            o = ov(out["aabbs"][i], out["qaabb"])
            if f in got:
                cin.append(AND(o, f not in wl))
            elif f not in wl:
                cout.append(NOT(o))
        ob.require("query_none_spurious", exact=AND(*cin) if cin else True)
        ob.require("query_none_missing", exact=AND(*cout) if cout else True)
        sp = out["self_pairs"]
        ob.require("self_pairs_no_duplicates", exact=(len(set(sp)) == len(sp)))
        gotp = set(sp)
        cin, cout = [], []
        for i in range(n):
            for j in range(n):
                if i == j:
                    continue
                o = ov(out["aabbs"][i], out["aabbs"][j])
                if ("f%d" % i, "f%d" % j) in gotp:
                    cin.append(o)
                else:
                    cout.append(NOT(o))
        ob.require("self_pairs_none_spurious", exact=AND(*cin) if cin else True)
        ob.require("self_pairs_none_missing", exact=AND(*cout) if cout else True)
        if a.get("other"):
            op = out["other_pairs"]
            gotp = set(op)
            ob.require("other_pairs_no_duplicates", exact=(len(gotp) == len(op)))
            cin, cout = [], []
            for i in range(n):
                for j in range(a["other"]):
                    o = ov(out["aabbs"][i], out["other_aabbs"][j])
                    if ("f%d" % i, "g%d" % j) in gotp:
                        cin.append(o)
                    else:
                        cout.append(NOT(o))
            ob.require("other_pairs_none_spurious", exact=AND(*cin) if cin else True)
            ob.require("other_pairs_none_missing", exact=AND(*cout) if cout else True)


class SelfCollision(Scenario):
    """detect / detect_any on N spheres with symbolic centres, enumerated whitelists and a free narrow phase."""
    prop = "C06"
    timeout_ms = 10000
    budget_s = 120
    max_decisions = 3000
    max_paths = 6000
    check_definedness = False

    def __init__(self, args):
        self.args = args
        self.n = args["n"]
        p = []
        for i in range(self.n):
            for c in "xyz":
                p.append(("f%d_%s" % (i, c), -10.0, 10.0))
        for i, j in itertools.combinations(range(self.n), 2):
            p.append(("coll_%d_%d" % (i, j), 0.0, 1.0))
        self.params = p
        self.r = 0.5

    def coll(self, P, i, j):
        if i == j:
            return True
        i, j = min(i, j), max(i, j)
        return P["coll_%d_%d" % (i, j)] > 0.5

    def boxes(self, P):
        return [[[P["f%d_%s" % (i, c)] - self.r, P["f%d_%s" % (i, c)] + self.r] for c in "xyz"] for i in range(self.n)]

    def assume(self, cx):
        B = self.boxes(cx.P)
        return [IMPLIES(self.coll(cx.P, i, j), ov(B[i], B[j])) for i, j in itertools.combinations(range(self.n), 2)]

    def build(self, cx):
        return {"centers": [[cx.P["f%d_%s" % (i, c)] for c in "xyz"] for i in range(self.n)]}

    def call(self, cx, inp):
        import distance3d.broad_phase as BP
        import distance3d.colliders as C
        import distance3d.self_collision as SC
        import distance3d.gjk as G
        if cx.symbolic:
            _tree_stubs()
        tm = StubTM()
        bvh = BP.BoundingVolumeHierarchy(tm, "base")
        frames = ["f%d" % i for i in range(self.n)]
        cols = {}
        for i, fr in enumerate(frames):
            col = C.Sphere(cx.arr(inp["centers"][i]), self.r)
            cols[id(col)] = i
            bvh.add_collider(fr, col)
        wl = self.args["wl"]        # wl[i] = list of frame indices whitelisted by i (self always included)
        for i, fr in enumerate(frames):
            bvh.self_collision_whitelists_[fr] = ["f%d" % j for j in sorted(set(wl[i]) | {i})]
        P = cx.P
        orig = G.gjk_intersection

        def narrow(c1, c2):
            return self.coll(P, cols[id(c1)], cols[id(c2)])
        G.gjk_intersection = narrow
        try:
            contacts = SC.detect(bvh)
            any_ = SC.detect_any(bvh)
        finally:
            G.gjk_intersection = orig
        return [[bool(contacts.get(fr, False)) for fr in frames], bool(any_)]

    def observable(self, out):
        return [out[1]]      # which frames detect() marks depends on the traversal order; detect_any does not

    def check(self, cx, inp, out, ob):
        contacts, any_ = out
        n = self.n
        P = cx.P
        wl = [set(w) | {i} for i, w in enumerate(self.args["wl"])]
        must, only, anyc = [], [], []
        for f in range(n):
            trig = OR(*[AND(self.coll(P, f, g), g not in wl[f]) for g in range(n) if g != f]) if n > 1 else False
            allowed = OR(*[AND(self.coll(P, f, g), (g not in wl[f]) or (f not in wl[g])) for g in range(n) if g != f]) if n > 1 else False
            must.append(IMPLIES(trig, contacts[f]))
            only.append(IMPLIES(contacts[f], allowed))
            anyc.append(trig)
        ob.require("detect_marks_every_collision_outside_whitelist", exact=AND(*must))
        ob.require("detect_marks_only_justified_frames", exact=AND(*only))
        truth_any = OR(*anyc)
        ob.require("detect_any_exact", exact=AND(IMPLIES(truth_any, any_), IMPLIES(any_, truth_any)))


def make(family, args):
    if family.startswith("self_collision"):
        return SelfCollision(args)
    return BvhScenario(args)


def jobs(tier, seed):
    J = []
    combos = [([0, 1, 2], [[0, 7, 13], [5, 11, 20]]), ([1, 1], [[3, 9], [9, 3]]), ([2, 0, 1], [[1, 1, 1], [22, 4, 17]]), ([0], [[0], [6]])]
    for ci, (types, rots) in enumerate(combos):
        for epochs in (1, 2):
            for wl in ((), ("f0",)):
                J.append({"family": "bvh", "args": {"types": types, "rots": rots, "epochs": epochs, "qtype": ci % 3, "qrot": (7 * ci) % 24,
                                                    "whitelist": list(wl), "other": 2 if (ci + epochs) % 2 == 0 else 0}})
    J.append({"family": "bvh", "args": {"types": [], "rots": [[], []], "epochs": 2, "qtype": 0, "qrot": 0, "whitelist": [], "other": 1}})
    # self-collision: all whitelist configurations for 3 frames (64), and the symmetric ones for 2
    n = 3
    others = [[j for j in range(n) if j != i] for i in range(n)]
    cfgs = list(itertools.product(*[[list(c) for k in range(len(o) + 1) for c in itertools.combinations(o, k)] for o in others]))
    for k, cfg in enumerate(cfgs):
        if tier == "quick" and k % 2 != seed % 2 and k not in (0, len(cfgs) - 1):
            continue
        J.append({"family": "self_collision_n3", "args": {"n": 3, "wl": [list(w) for w in cfg]}})
    for cfg in ([[], []], [[1], [0]], [[1], []], [[], [0]]):
        J.append({"family": "self_collision_n2", "args": {"n": 2, "wl": cfg}})
    return J
