"""C07 — EPA returns the minimum translation vector whenever it reports success."""
from . import gjk_common as GC

FUNCTIONS = ["distance3d.epa.epa", "Polytope.*", "LooseEdges.*", "distance3d.gjk.gjk_distance_jolt (supplies the simplex, so every winding GJK produces on the sweep is covered)"]
STUBS = []
OUTSIDE = ["smooth colliders (and with them the polytope-capacity assertion)", "rotation sweeps", "rounding"]
BOUNDS = {"quick": "6 solid polytope pairs x 2-3 of 5 translation sweeps inside and across the overlap interval (B axis-aligned and in rational rotated orientations); exact oracle: facets of the Minkowski difference (scipy, once per base scene) give the penetration depth min_k(h_k - n_k.c(t)) as a piecewise-linear function of the sweep parameter",
          "thorough": "the same 6 pairs x all 5 sweeps"}
WALL_BUDGET = {"quick": 300, "thorough": 600}
EXPECTED_EXCEPTIONS = ()
# EPA/MPR expansion is numerically chaotic at the exactly degenerate placements the sweeps pass through: the float code and
# the exact-arithmetic path legitimately end in different (each self-consistent) polytopes, so outputs at a path witness
# often differ although the compiled code satisfies the property there.  Divergences that VIOLATE the property on the
# compiled code are reported as violations; the others are counted, not treated as an encoding failure.
MISMATCH_LIMIT = 1.0


def make(family, args):
    return GC.Penetration("C07", args)


def jobs(tier, seed):
    return GC.penetration_jobs(tier, seed, "epa")
