#!/bin/sh
# Overlay venv of /venv with z3-solver from the offline wheelhouse. Idempotent.
set -e
V="$(cd "$(dirname "$0")" && pwd)/.venv"
if [ ! -x "$V/bin/python" ] || ! "$V/bin/python" -c "import z3, numpy, numba" 2>/dev/null; then
  rm -rf "$V"
  /venv/bin/python -m venv "$V"
  SP=$("$V/bin/python" -c "import sysconfig; print(sysconfig.get_paths()['purelib'])")
  echo "import site; site.addsitedir('/venv/lib/python3.12/site-packages')" > "$SP/verif_overlay.pth"
  PIP_NO_INDEX=1 "$V/bin/pip" install -q --no-index --find-links /opt/veriftools/wheels z3-solver >/dev/null
fi
"$V/bin/python" -c "import z3, numpy, numba, scipy; print('setup ok: z3', z3.get_version_string(), 'numpy', numpy.__version__)"
