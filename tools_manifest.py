#!/usr/bin/env python3
"""Regenerates MANIFEST.json from the table below (kept valid at all times)."""
import json, os
V = os.path.dirname(os.path.abspath(__file__))
props = [json.loads(l) for l in open(os.path.join(V, "properties.jsonl"))]
CLAIMED = json.load(open(os.path.join(V, "claims.json")))
m = {"version": 1, "setup_cmd": "./setup.sh",
     "hooks": {"guard": "DISTANCE3D_VERIF",
               "enable": "no hooks in /repo: checks import /repo's working tree in their own processes, rebind module globals (np, math, min, max) to symbolic shims there, and use numba's own NUMBA_DISABLE_JIT=1 switch for the exploring processes; replays run the unmodified compiled code",
               "baseline_off_cmd": "cd /repo && /venv/bin/python -m pytest -ra -q -p no:cacheprovider --timeout=900 --continue-on-collection-errors",
               "source_commits": [], "add_only": True},
     "engines": [{"name": "symx", "path": "/verif/symx", "serves_properties": sorted(CLAIMED["claimed"]),
                  "kind_free_text": "path-wise symbolic execution of /repo's own Python functions (the source numba compiles) on z3 Real proxies inside numpy object arrays; z3 (nlsat for nonlinear, LRA for linear paths) decides every branch feasibility and every obligation for all values of the symbolic parameters; path witnesses are validated and counterexamples replayed on the numba-compiled code"}],
     "checks": [], "notes": "See DESIGN.md. Exit codes: 0 held on everything explored, 1 VIOLATION (replayed on the real code), 2 harness error.",
     "not_applicable": []}
for p in props:
    pid = p["id"]
    if pid in CLAIMED["claimed"]:
        c = CLAIMED["claimed"][pid]
        m["checks"].append({
            "property_id": pid, "quick_cmd": "./check %s --tier quick" % pid,
            "thorough_cmd": "./check %s --tier thorough" % pid,
            "evidence_file": "/verif/evidence/%s.json" % pid,
            "replay_cmd_template": "./check %s --replay {path}" % pid, "engine": "symx",
            "level_claimed": {"category": "model_checking", "text": c["text"], "design_ref": "DESIGN.md §5 " + pid},
            "level_note": c["note"],
            "technique": c.get("technique", "symbolic execution of the real Python source + SMT (z3 nlsat/LRA) per path; counterexamples replayed on the compiled code")})
    else:
        m["not_applicable"].append({"property_id": pid, "reason": CLAIMED["not_applicable"].get(pid, "harness not built yet (build in progress; see DESIGN.md)")})
json.dump(m, open(os.path.join(V, "MANIFEST.json"), "w"), indent=1)
print("claimed", sorted(CLAIMED["claimed"]))
