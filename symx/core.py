"""symx core: symbolic scalars over z3 Reals and the path-exploring engine.

The real distance3d functions are executed on these proxies (stored in numpy
object arrays).  Every `bool()` of a symbolic comparison is a branch point
decided by z3; exploration is depth-first with re-execution from a decision
prefix (stateless, so mutation inside the code under test is harmless).
"""
import os
import time
from fractions import Fraction

import numpy as _np
import z3


# ---------------------------------------------------------------- exceptions
class PathAbort(BaseException):
    """Ends the current path (BaseException: code under test must not catch it)."""

    def __init__(self, kind, msg=""):
        super().__init__(kind, msg)
        self.kind = kind
        self.msg = msg


class Unsupported(PathAbort):
    def __init__(self, msg):
        super().__init__("unsupported", msg)


class UninitRead(Exception):
    """A value of np.empty storage reached a comparison / branch / output."""


# ---------------------------------------------------------------- poison
class _Uninit:
    """Poison for np.empty storage: arithmetic propagates it, using it in a
    comparison (i.e. letting it influence control flow) is an error."""
    __slots__ = ()
    __array_ufunc__ = None

    def _p(self, *_):
        return self

    __add__ = __radd__ = __sub__ = __rsub__ = __mul__ = __rmul__ = _p
    __truediv__ = __rtruediv__ = __neg__ = __pos__ = __abs__ = __pow__ = _p

    def _c(self, *_):
        raise UninitRead("comparison on uninitialised (np.empty) storage")

    __lt__ = __le__ = __gt__ = __ge__ = __eq__ = __ne__ = __bool__ = _c
    __hash__ = None

    def __float__(self):
        raise UninitRead("float() of uninitialised (np.empty) storage")

    def __repr__(self):
        return "UNINIT"


UNINIT = _Uninit()

# ---------------------------------------------------------------- helpers
ENGINE = None  # the engine of the running exploration (one per process)
DUMP_DIR = os.environ.get("SYMX_DUMP")            # development: dump every DUMP_EVERY-th query as SMT-LIB2 (tools/crosscheck.py)
DUMP_EVERY = int(os.environ.get("SYMX_DUMP_EVERY", "25"))
_DUMPED = [0]


def _dump_query(cs, result, nonlinear):
    try:
        sol = z3.Solver()
        for c in cs:
            sol.add(c)
        _DUMPED[0] += 1
        name = os.path.join(DUMP_DIR, "q_%d_%d_%s_%s.smt2" % (os.getpid(), _DUMPED[0], "nra" if nonlinear else "lra", result))
        with open(name, "w") as f:
            f.write(sol.to_smt2())
    except Exception:
        pass

_CONST_CACHE = {}


def rv(x):
    """Exact z3 Real numeral of a Python/numpy number."""
    if isinstance(x, Fraction):
        return z3.RealVal(str(x))
    if isinstance(x, (bool, _np.bool_)):
        return z3.RealVal(int(x))
    if isinstance(x, (int, _np.integer)):
        return z3.RealVal(int(x))
    f = float(x)
    r = _CONST_CACHE.get(f)
    if r is None:
        if f != f or f in (float("inf"), float("-inf")):
            raise Unsupported("non-finite constant %r" % f)
        fr = Fraction(f)
        r = z3.RealVal(str(fr))
        if len(_CONST_CACHE) < 100000:
            _CONST_CACHE[f] = r
    return r


def is_sym(x):
    return isinstance(x, (SymReal, SymBool))


def lift(x):
    """z3 Real term of a scalar."""
    if isinstance(x, SymReal):
        return x.e
    if isinstance(x, _Uninit):
        raise UninitRead("uninitialised value used in a formula")
    if isinstance(x, _np.ndarray):
        if x.ndim == 0:
            return lift(x.item())
        raise TypeError("array where scalar expected")
    return rv(x)


def liftb(x):
    if isinstance(x, SymBool):
        return x.e
    if isinstance(x, _Uninit):
        raise UninitRead("uninitialised value used as a condition")
    return z3.BoolVal(bool(x))


def _is_inf(o):
    return isinstance(o, (float, _np.floating)) and (o == float("inf") or o == float("-inf"))


def _is_num(o):
    return isinstance(o, (int, float, _np.floating, _np.integer, bool, _np.bool_, Fraction))


# ---------------------------------------------------------------- SymBool
class SymBool:
    __slots__ = ("e",)
    __array_ufunc__ = None

    def __init__(self, e):
        self.e = e

    def __bool__(self):
        return ENGINE.branch(self.e)

    def __and__(self, o):
        return SymBool(z3.And(self.e, liftb(o)))

    __rand__ = __and__

    def __or__(self, o):
        return SymBool(z3.Or(self.e, liftb(o)))

    __ror__ = __or__

    def __invert__(self):
        return SymBool(z3.Not(self.e))

    def __eq__(self, o):
        return SymBool(self.e == liftb(o))

    def __ne__(self, o):
        return SymBool(self.e != liftb(o))

    __hash__ = None

    def __repr__(self):
        return "SymBool(%s)" % self.e


# ---------------------------------------------------------------- SymReal
class SymReal:
    """A float64 of the program, modelled as an exact real."""
    __slots__ = ("e",)

    def __init__(self, e):
        self.e = e

    # -- arithmetic -------------------------------------------------------
    def __add__(self, o):
        if isinstance(o, _np.ndarray):
            return NotImplemented
        if isinstance(o, _Uninit):
            return o
        if _is_num(o):
            if o == 0:
                return self
            return SymReal(self.e + rv(o))
        return SymReal(self.e + lift(o))

    __radd__ = __add__

    def __sub__(self, o):
        if isinstance(o, _np.ndarray):
            return NotImplemented
        if isinstance(o, _Uninit):
            return o
        if _is_num(o):
            if o == 0:
                return self
            return SymReal(self.e - rv(o))
        return SymReal(self.e - lift(o))

    def __rsub__(self, o):
        if isinstance(o, _np.ndarray):
            return NotImplemented
        if isinstance(o, _Uninit):
            return o
        if _is_num(o) and o == 0:
            return SymReal(-self.e)
        return SymReal(lift(o) - self.e)

    def __mul__(self, o):
        if isinstance(o, _np.ndarray):
            return NotImplemented
        if isinstance(o, _Uninit):
            return o
        if _is_num(o):
            if o == 0:
                return 0.0
            if o == 1:
                return self
            if o == -1:
                return SymReal(-self.e)
            return SymReal(self.e * rv(o))
        ENGINE.nonlinear = True
        return SymReal(self.e * lift(o))

    __rmul__ = __mul__

    def __truediv__(self, o):
        if isinstance(o, _np.ndarray):
            return NotImplemented
        if isinstance(o, _Uninit):
            return o
        if _is_num(o):
            if o == 0:
                return ENGINE.div_by_zero(self, o)
            if o == 1:
                return self
            return SymReal(self.e / rv(o))
        return ENGINE.divide(self, o)

    def __rtruediv__(self, o):
        if isinstance(o, _np.ndarray):
            return NotImplemented
        if isinstance(o, _Uninit):
            return o
        if _is_num(o) and o == 0:
            ENGINE.divide(1.0, self)  # obligation only
            return 0.0
        return ENGINE.divide(o, self)

    def __neg__(self):
        return SymReal(-self.e)

    def __pos__(self):
        return self

    def __abs__(self):
        return SymReal(z3.If(self.e >= 0, self.e, -self.e))

    def __pow__(self, k):
        if isinstance(k, SymReal):
            raise Unsupported("symbolic exponent")
        if isinstance(k, (int, _np.integer)) or float(k) == int(k):
            k = int(k)
            if k == 0:
                return 1.0
            if k < 0:
                return 1.0 / (self ** (-k))
            r = self
            for _ in range(k - 1):
                r = r * self
            return r
        fr = Fraction(float(k)).limit_denominator(12)
        if abs(float(fr) - float(k)) > 1e-15:
            raise Unsupported("irrational exponent %r" % k)
        if fr < 0:
            return 1.0 / (self ** (-float(k)))
        # y = x^(p/q), x >= 0  <=>  y >= 0, y^q = x^p
        return ENGINE.root(self, fr.numerator, fr.denominator)

    def __rpow__(self, o):
        raise Unsupported("symbolic exponent")

    # -- comparisons ------------------------------------------------------
    def __lt__(self, o):
        if isinstance(o, _np.ndarray):
            return NotImplemented
        if _is_inf(o):
            return o > 0
        return SymBool(self.e < lift(o))

    def __le__(self, o):
        if isinstance(o, _np.ndarray):
            return NotImplemented
        if _is_inf(o):
            return o > 0
        return SymBool(self.e <= lift(o))

    def __gt__(self, o):
        if isinstance(o, _np.ndarray):
            return NotImplemented
        if _is_inf(o):
            return o < 0
        return SymBool(self.e > lift(o))

    def __ge__(self, o):
        if isinstance(o, _np.ndarray):
            return NotImplemented
        if _is_inf(o):
            return o < 0
        return SymBool(self.e >= lift(o))

    def __eq__(self, o):
        if isinstance(o, _np.ndarray):
            return NotImplemented
        if o is None:
            return False
        return SymBool(self.e == lift(o))

    def __ne__(self, o):
        if isinstance(o, _np.ndarray):
            return NotImplemented
        if o is None:
            return True
        return SymBool(self.e != lift(o))

    __hash__ = None

    # -- conversions ------------------------------------------------------
    def __float__(self):
        raise Unsupported("float() of a symbolic value")

    def __int__(self):
        return ENGINE.concretise_int(self, "trunc")

    def __index__(self):
        raise Unsupported("symbolic value used as an index")

    def __floor__(self):
        return ENGINE.concretise_int(self, "floor")

    def __ceil__(self):
        return ENGINE.concretise_int(self, "ceil")

    def __bool__(self):
        return ENGINE.branch(self.e != 0)

    def sqrt(self):
        return ENGINE.root(self, 1, 2)

    def __repr__(self):
        s = str(self.e)
        return "SymReal(%s)" % (s if len(s) < 80 else s[:77] + "...")


def ite(c, a, b):
    """Merged conditional value (no fork)."""
    if isinstance(c, SymBool):
        if isinstance(a, _Uninit) or isinstance(b, _Uninit):
            return a if bool(c) else b
        return SymReal(z3.If(c.e, lift(a), lift(b)))
    return a if c else b


# ---------------------------------------------------------------- solving
def _num(v):
    """float of a z3 numeral / algebraic number."""
    if z3.is_rational_value(v):
        return float(Fraction(v.numerator_as_long(), v.denominator_as_long()))
    if z3.is_algebraic_value(v):
        a = v.approx(20)
        return float(Fraction(a.numerator_as_long(), a.denominator_as_long()))
    if z3.is_int_value(v):
        return float(v.as_long())
    raise ValueError("not a numeral: %s" % v)


def _frac(v):
    if z3.is_rational_value(v):
        return Fraction(v.numerator_as_long(), v.denominator_as_long())
    if z3.is_algebraic_value(v):
        a = v.approx(30)
        return Fraction(a.numerator_as_long(), a.denominator_as_long())
    if z3.is_int_value(v):
        return Fraction(v.as_long())
    raise ValueError("not a numeral: %s" % v)


class Stats:
    def __init__(self):
        self.queries = 0
        self.solver_s = 0.0
        self.unknown = 0
        self.by_kind = {}
        self.defined_checked = 0       # divisions / radicands whose definedness was posed to the solver
        self.defined_discharged = 0    # ... and proved impossible to be zero / negative on that path


class Engine:
    """One exploration (one scenario / sweep)."""

    def __init__(self, timeout_ms=10000, max_decisions=400, max_paths=5000,
                 budget_s=None, check_definedness=True):
        self.timeout_ms = timeout_ms
        self.max_decisions = max_decisions
        self.max_paths = max_paths
        self.budget_s = budget_s
        self.check_definedness = check_definedness
        self.stats = Stats()
        self.domain = []          # assumptions on the parameters (set by scenario)
        self.params = {}          # name -> z3 Real
        self._reset_path([], None)
        self.pending = []
        self.t0 = time.time()
        self.unexplored = 0

    # -- per-path state ---------------------------------------------------
    def _reset_path(self, prefix, model):
        self.prefix = prefix
        self.trace = []
        self.pc = []
        self.side = []
        self.fresh = 0
        self.nonlinear = False
        self.model = model
        self.model_valid_upto = len(prefix) if model is not None else -1
        self.inconclusive = False
        self.findings = []       # definedness findings on this path
        self.obligs = []         # (name, status, detail)
        self.notes = {}
        self.scratch = {}        # per-path storage for stubs (not serialised)
        self._assumed = set()    # ids of simplified conditions already in pc
        self._decided = {}       # id of simplified branch condition -> decision on this path
        self._roots = {}         # (id of simplified radicand, p, q) -> SymReal

    # -- parameters -------------------------------------------------------
    def param(self, name, lo=None, hi=None):
        v = self.params.get(name)
        if v is None:
            v = z3.Real(name)
            self.params[name] = v
            if lo is not None:
                self.domain.append(v >= rv(lo))
            if hi is not None:
                self.domain.append(v <= rv(hi))
        return SymReal(v)

    def assume(self, c):
        """Domain assumption; must be placed before the code it constrains."""
        self.domain.append(liftb(c))

    def new_real(self, name="aux"):
        self.fresh += 1
        return z3.Real("%s!%d" % (name, self.fresh))

    # -- queries ----------------------------------------------------------
    def _constraints(self, extra=()):
        return self.domain + self.side + self.pc + list(extra)

    def check(self, extra=(), kind="branch", timeout_ms=None):
        """Satisfiability of domain ∧ side ∧ pc ∧ extra.  Fresh solver per query."""
        t = time.time()
        cs = self._constraints(extra)
        to = timeout_ms or self.timeout_ms
        if self.nonlinear:
            sol = z3.Tactic("qfnra-nlsat").solver()
        else:
            sol = z3.SolverFor("QF_LRA")
        sol.set("timeout", to)
        for c in cs:
            sol.add(c)
        r = sol.check()
        m = None
        if r == z3.sat:
            m = sol.model()
        elif r == z3.unknown and not self.nonlinear:
            # LRA solver gave up (ite-heavy or hidden nonlinearity): try general solver
            sol = z3.Solver()
            sol.set("timeout", to)
            for c in cs:
                sol.add(c)
            r = sol.check()
            if r == z3.sat:
                m = sol.model()
        dt = time.time() - t
        if DUMP_DIR and self.stats.queries % DUMP_EVERY == 0:
            _dump_query(cs, str(r), self.nonlinear)
        st = self.stats
        st.queries += 1
        st.solver_s += dt
        k = st.by_kind.setdefault(kind, [0, 0.0])
        k[0] += 1
        k[1] += dt
        if r == z3.unknown:
            st.unknown += 1
        return str(r), m

    def _eval_bool(self, cond):
        """Truth value of cond under the current witness model, or None."""
        if self.model is None:
            return None
        try:
            v = self.model.eval(cond, model_completion=True)
        except z3.Z3Exception:
            return None
        if z3.is_true(v):
            return True
        if z3.is_false(v):
            return False
        return None

    # -- branching --------------------------------------------------------
    def branch(self, cond, tag=None):
        cond = z3.simplify(cond)
        if z3.is_true(cond):
            return True
        if z3.is_false(cond):
            return False
        cid = cond.get_id()
        if cid in self._decided:
            return self._decided[cid]
        i = len(self.trace)
        if i >= self.max_decisions:
            raise PathAbort("bound-exceeded", "more than %d decisions" % self.max_decisions)
        wrap = (lambda b: b) if tag is None else (lambda b: (tag, b))
        if i < len(self.prefix):
            d = self.prefix[i]
            if isinstance(d, tuple):
                d = d[1]
        else:
            if self.budget_s is not None and time.time() - self.t0 > self.budget_s:
                raise PathAbort("budget", "time budget exhausted")
            known = self._eval_bool(cond)
            if known is not None:
                d = known
                other = z3.Not(cond) if d else cond
                r, m = self.check([other])
                if r != "unsat":
                    if r == "unknown":
                        self.inconclusive = True
                    self.pending.append((self.trace + [wrap(not d)], m, r == "unknown"))
            else:
                rt, mt = self.check([cond])
                rf, mf = self.check([z3.Not(cond)])
                ft, ff = rt != "unsat", rf != "unsat"
                if "unknown" in (rt, rf):
                    self.inconclusive = True
                if ft and ff:
                    d = True
                    self.pending.append((self.trace + [wrap(False)], mf, rf == "unknown"))
                    self.model = mt
                elif ft:
                    d = True
                    self.model = mt
                elif ff:
                    d = False
                    self.model = mf
                else:
                    raise PathAbort("infeasible", "both sides unsat")
        self.trace.append(wrap(d))
        self.pc.append(cond if d else z3.Not(cond))
        self._decided[cid] = d
        return d

    def concretise_int(self, x, mode):
        """int(x) / floor(x) / ceil(x) of a symbolic real: enumerates the feasible integer
        values lazily (one branch per value, guided by the path witness)."""
        import math as _m
        e = x.e
        for _ in range(64):
            i = len(self.trace)
            if i < len(self.prefix) and isinstance(self.prefix[i], tuple):
                v = Fraction(self.prefix[i][0])      # replay: the candidate recorded on the parent path
            else:
                m = self.witness()
                if m is None:
                    raise PathAbort("unknown", "no witness to concretise an integer")
                v = _frac(m.eval(e, model_completion=True))
            if mode == "floor":
                n = _m.floor(v)
                c = z3.And(e >= n, e < n + 1)
            elif mode == "ceil":
                n = _m.ceil(v)
                c = z3.And(e > n - 1, e <= n)
            else:
                n = int(v)
                c = z3.And(e > n - 1, e < n + 1) if n == 0 else (z3.And(e >= n, e < n + 1) if n > 0 else z3.And(e > n - 1, e <= n))
            if self.branch(c, tag=str(v)):
                return n
        raise PathAbort("bound-exceeded", "more than 64 integer values for one symbolic quantity")

    def fork_int(self, lo, hi, label="int"):
        """Nondeterministic concrete int in [lo, hi] (forks)."""
        for v in range(lo, hi):
            i = len(self.trace)
            if i < len(self.prefix):
                d = self.prefix[i]
            else:
                d = True
                self.pending.append((self.trace + [False], self.model, False))
            self.trace.append(d)
            if d:
                return v
        return hi

    # -- definedness ------------------------------------------------------
    def _finding(self, kind, detail, model):
        self.findings.append({"kind": kind, "detail": detail, "model": model})

    def div_by_zero(self, a, b):
        self._finding("zero-divisor", "division by constant zero", self.model)
        raise PathAbort("definedness", "division by constant zero")

    def divide(self, a, b):
        ea, eb = lift(a), lift(b)
        self.nonlinear = True
        if len(self.trace) < len(self.prefix):
            # replaying the prefix: this division was checked on the parent path
            z = z3.simplify(eb == 0)
            if not z3.is_false(z) and not z3.is_true(z):
                self.pc.append(z3.Not(z))
        elif self.check_definedness:
            z = z3.simplify(eb == 0)
            if z.get_id() in self._assumed:
                return SymReal(ea / eb)
            self._assumed.add(z.get_id())
            if z3.is_true(z):
                self._finding("zero-divisor", "divisor identically zero", self.model)
                raise PathAbort("definedness", "division by zero")
            if not z3.is_false(z):
                known = self._eval_bool(z)
                if known:
                    r, m = "sat", self.model
                else:
                    r, m = self.check([z], kind="definedness")
                self.stats.defined_checked += 1
                if r == "unsat":
                    self.stats.defined_discharged += 1
                if r == "sat":
                    self._finding("zero-divisor", "divisor can be zero: %s" % _short(eb), m)
                    if not known:
                        r2, m2 = self.check([z3.Not(z)], kind="definedness")
                        if r2 == "unsat":
                            raise PathAbort("definedness", "divisor always zero here")
                elif r == "unknown":
                    self.notes["definedness_unknown"] = self.notes.get("definedness_unknown", 0) + 1
                if known:
                    # current witness sits on the zero divisor; need a new one
                    r2, m2 = self.check([z3.Not(z)], kind="definedness")
                    if r2 == "unsat":
                        raise PathAbort("definedness", "divisor always zero here")
                    self.model = m2
                self.pc.append(z3.Not(z))
        return SymReal(ea / eb)

    def root(self, x, p, q):
        """y = x^(p/q) for x >= 0."""
        ex = lift(x)
        self.nonlinear = True
        replay = len(self.trace) < len(self.prefix)
        if replay:
            neg = z3.simplify(ex < 0)
            if not z3.is_false(neg) and not z3.is_true(neg):
                self.pc.append(z3.Not(neg))
        elif self.check_definedness:
            neg = z3.simplify(ex < 0)
            if neg.get_id() in self._assumed:
                neg = z3.BoolVal(False)
            else:
                self._assumed.add(neg.get_id())
            if z3.is_true(neg):
                self._finding("negative-radicand", "radicand always negative", self.model)
                raise PathAbort("definedness", "sqrt of negative")
            if not z3.is_false(neg):
                known = self._eval_bool(neg)
                if known:
                    r, m = "sat", self.model
                else:
                    r, m = self.check([neg], kind="definedness")
                self.stats.defined_checked += 1
                if r == "unsat":
                    self.stats.defined_discharged += 1
                if r == "sat":
                    self._finding("negative-radicand", "radicand can be negative: %s" % _short(ex), m)
                    if not known:
                        r2, m2 = self.check([z3.Not(neg)], kind="definedness")
                        if r2 == "unsat":
                            raise PathAbort("definedness", "radicand always negative here")
                if known:
                    r2, m2 = self.check([z3.Not(neg)], kind="definedness")
                    if r2 == "unsat":
                        raise PathAbort("definedness", "radicand always negative here")
                    self.model = m2
                self.pc.append(z3.Not(neg))
        sx = z3.simplify(ex)
        key = (sx.get_id(), p, q)
        if key in self._roots:
            return self._roots[key]
        if z3.is_rational_value(sx) and p == 1 and q == 2:
            fr = Fraction(sx.numerator_as_long(), sx.denominator_as_long())
            if fr >= 0:
                import math as _m
                rn, rd = _m.isqrt(fr.numerator), _m.isqrt(fr.denominator)
                if rn * rn == fr.numerator and rd * rd == fr.denominator:
                    res = SymReal(z3.RealVal(str(Fraction(rn, rd))))
                    self._roots[key] = res
                    return res
                # constant radicand: evaluate like every other concrete sub-computation, in float64
                res = float(fr) ** 0.5
                self._roots[key] = res
                return res
        y = self.new_real("root")
        self._roots[key] = SymReal(y)
        self.side.append(y >= 0)
        lhs = y
        for _ in range(q - 1):
            lhs = lhs * y
        rhs = ex
        for _ in range(p - 1):
            rhs = rhs * ex
        self.side.append(lhs == rhs)
        if not replay:
            self.model = None  # witness does not define y
        return SymReal(y)

    def index_ok(self, i, n, what="index"):
        """Bounds obligation for a concrete index (numba does not check)."""
        if not (0 <= i < n):
            self._finding("index-out-of-range", "%s %d not in [0,%d)" % (what, i, n), self.model)

    # -- obligations ------------------------------------------------------
    def prove(self, name, exact=None, tol=None):
        """Obligation: under the path condition `exact` (tolerance 0) or `tol`
        (with the property's tolerance) holds.  unsat of the negation of either
        discharges it; sat of the negated `tol` variant is a candidate
        counterexample (to be replayed on the real code)."""
        variants = []
        if exact is not None:
            variants.append(("exact", liftb(exact)))
        if tol is not None:
            variants.append(("tol", liftb(tol)))
        status, model, how = "undecided", None, None
        for label, c in variants:
            c = z3.simplify(c)
            if z3.is_true(c):
                status, how = "discharged", label + "/trivial"
                break
            if z3.is_false(c):
                r, m = ("sat", self.model) if self.model is not None else self.check([], kind="obligation")
            else:
                known = self._eval_bool(c)
                if known is False:
                    r, m = "sat", self.model
                else:
                    r, m = self.check([z3.Not(c)], kind="obligation")
            if r == "unsat":
                status, how = "discharged", label
                break
            if r == "sat" and label == "tol":
                status, model, how = "refuted", m, label
            elif r == "sat" and tol is None:
                status, model, how = "refuted", m, label
        self.obligs.append({"name": name, "status": status, "how": how, "model": model})
        return status

    def prove_all(self, items):
        """items: list of (name, exact, tol).  One combined query first."""
        items = [it for it in items if it is not None]
        if not items:
            return
        if len(items) > 1:
            conj = []
            for name, ex, tl in items:
                c = ex if ex is not None else tl
                conj.append(liftb(c))
            neg = z3.simplify(z3.Not(z3.And(*conj)))
            if z3.is_false(neg):
                r = "unsat"
            else:
                known = self._eval_bool(neg)
                r = "sat" if known else self.check([neg], kind="obligation")[0]
            if r == "unsat":
                for name, ex, tl in items:
                    self.obligs.append({"name": name, "status": "discharged", "how": "batch", "model": None})
                return
        for name, ex, tl in items:
            self.prove(name, ex, tl)

    # -- model access -----------------------------------------------------
    def witness(self):
        """A model of the whole path (domain ∧ side ∧ pc), or None."""
        if self.model is None:
            r, m = self.check([], kind="witness")
            if r == "sat":
                self.model = m
        return self.model

    def eval_float(self, x, model):
        if isinstance(x, _Uninit):
            return None
        if isinstance(x, SymBool):
            v = model.eval(x.e, model_completion=True)
            return bool(z3.is_true(v))
        if isinstance(x, SymReal):
            v = model.eval(x.e, model_completion=True)
            try:
                return _num(v)
            except ValueError:
                return None
        if isinstance(x, _np.ndarray):
            if x.dtype == object:
                out = _np.empty(x.shape, dtype=float)
                for idx in _np.ndindex(x.shape):
                    f = self.eval_float(x[idx], model)
                    out[idx] = _np.nan if f is None else f
                return out
            return x
        if isinstance(x, (list, tuple)):
            return [self.eval_float(y, model) for y in x]
        return x

    def param_values(self, model):
        out = {}
        for n, v in self.params.items():
            val = model.eval(v, model_completion=True)
            out[n] = _frac(val)
        return out

    # -- exploration ------------------------------------------------------
    def explore(self, fn):
        """Run fn(engine) once per feasible path.  Yields path records."""
        global ENGINE
        ENGINE = self
        self.pending = [([], None, False)]
        n = 0
        while self.pending:
            if n >= self.max_paths or (self.budget_s is not None and time.time() - self.t0 > self.budget_s):
                self.unexplored += len(self.pending)
                self.pending = []
                break
            prefix, model, inc = self.pending.pop()
            self._reset_path(prefix, model)
            self.inconclusive = inc
            rec = {"status": "ok", "result": None}
            try:
                rec["result"] = fn(self)
            except PathAbort as e:
                rec["status"] = e.kind
                rec["msg"] = e.msg
            except UninitRead as e:
                rec["status"] = "exception"
                rec["msg"] = "UninitRead: %s" % e
                self._finding("uninit-read", str(e), self.model)
            except Exception as e:  # raised by the code under test
                import traceback
                tb = traceback.extract_tb(e.__traceback__)
                loc = ""
                for fr in reversed(tb):
                    if "/distance3d/" in fr.filename:
                        loc = "%s:%d" % (fr.filename.split("/distance3d/")[-1], fr.lineno)
                        break
                if not loc and tb:
                    loc = "%s:%d" % (tb[-1].filename, tb[-1].lineno)
                rec["status"] = "exception"
                rec["msg"] = "%s: %s @ %s" % (type(e).__name__, e, loc)
                rec["exc_type"] = type(e).__name__
                self._finding("exception", rec["msg"], self.model)
            rec["decisions"] = len(self.trace)
            rec["trace"] = "".join(("1" if d else "0") if not isinstance(d, tuple) else ("I" if d[1] else "i")
                                   for d in self.trace)
            rec["inconclusive"] = self.inconclusive
            rec["findings"] = self.findings
            rec["obligs"] = self.obligs
            rec["notes"] = self.notes
            n += 1
            yield rec


def _short(e, n=120):
    s = str(e).replace("\n", " ")
    return s if len(s) <= n else s[:n - 3] + "..."


# ---------------------------------------------------------------- function summaries
class PredicateSummary:
    """Disjunction of the true-paths of a small pure predicate over scalar
    placeholders, computed by exploring the REAL function once
    (compositional symbolic execution)."""

    def __init__(self, fn, shapes, name="pred"):
        import numpy as np
        global ENGINE
        saved = ENGINE
        eng = Engine(timeout_ms=5000, max_decisions=200, max_paths=2000, check_definedness=False)
        self.placeholders = []
        args = []
        for ai, shp in enumerate(shapes):
            a = np.empty(shp, dtype=object)
            for idx in np.ndindex(shp):
                v = z3.Real("%s_ph%d_%s" % (name, ai, "_".join(map(str, idx))))
                a[idx] = SymReal(v)
                self.placeholders.append((ai, idx, v))
            args.append(a)
        true_paths = []
        self.paths = 0

        def run(e):
            r = bool(fn(*args))
            if r:
                true_paths.append(z3.And(*e.pc) if e.pc else z3.BoolVal(True))
            return r
        for rec in eng.explore(run):
            self.paths += 1
            if rec["status"] != "ok":
                raise RuntimeError("summary of %s: path %s %s" % (name, rec["status"], rec.get("msg")))
        self.formula = z3.simplify(z3.Or(*true_paths)) if true_paths else z3.BoolVal(False)
        self.queries = eng.stats.queries
        ENGINE = saved

    def __call__(self, *args):
        sub = []
        conc = True
        for ai, idx, v in self.placeholders:
            x = args[ai][idx]
            if isinstance(x, SymReal):
                conc = False
            sub.append((v, lift(x)))
        f = z3.simplify(z3.substitute(self.formula, *sub))
        if z3.is_true(f):
            return True
        if z3.is_false(f):
            return False
        return SymBool(f)
