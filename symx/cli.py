import argparse
import os
import sys

VERIF = os.path.dirname(os.path.dirname(os.path.abspath(__file__)))
sys.path.insert(0, VERIF)

HARNESS_OF = {}


def main():
    ap = argparse.ArgumentParser()
    ap.add_argument("prop")
    ap.add_argument("--tier", default=os.environ.get("VERIF_TIER", "quick"))
    ap.add_argument("--replay")
    ap.add_argument("--filter")
    ap.add_argument("--nproc", type=int)
    a = ap.parse_args()
    seed = int(os.environ.get("VERIF_SEED", "0") or 0)
    prop = a.prop.upper()
    hname = HARNESS_OF.get(prop, prop.lower())
    from symx import driver
    sys.exit(driver.run_check(prop, hname, a.tier, seed, replay_path=a.replay, nproc=a.nproc, jobs_filter=a.filter))


if __name__ == "__main__":
    main()
