"""Check driver: schedules scenario explorations over the cores, validates
every path's witness on the real (compiled) code, replays candidate
counterexamples, applies the known-findings list, writes evidence."""
import importlib
import json
import math
import multiprocessing as mp
import os
import re
import select
import subprocess
import sys
import time
from concurrent.futures import ProcessPoolExecutor, as_completed
from fractions import Fraction

VERIF = os.path.dirname(os.path.dirname(os.path.abspath(__file__)))
OUT = os.environ.get("VERIF_OUT", VERIF)       # seed evaluations write their evidence / replays elsewhere
PY = sys.executable
HARNESS_ERROR = 2


# ---------------------------------------------------------------- replayer client
class Replayer:
    def __init__(self, mode, env=None):
        self.mode = mode
        self.env = dict(os.environ if env is None else env)
        if mode == "jit":
            self.env.pop("NUMBA_DISABLE_JIT", None)
        else:
            self.env["NUMBA_DISABLE_JIT"] = "1"
        self.env["PYTHONPATH"] = VERIF
        self.p = None
        self.requests = 0
        self.hangs = 0
        self.start_error = None

    def start(self):
        self.p = subprocess.Popen([PY, "-m", "symx.worker", self.mode], cwd=VERIF, env=self.env,
                                  stdin=subprocess.PIPE, stdout=subprocess.PIPE,
                                  stderr=subprocess.DEVNULL, text=True, bufsize=1)
        self._ready = False

    def _readline(self, timeout):
        r, _, _ = select.select([self.p.stdout], [], [], timeout)
        if not r:
            return None
        return self.p.stdout.readline()

    def ensure(self):
        if self.p is None or self.p.poll() is not None:
            self.start()
        if not self._ready:
            line = self._readline(900)
            if not line:
                self.start_error = "replayer(%s) did not start" % self.mode
                raise RuntimeError(self.start_error)
            self._ready = True

    def call(self, req, timeout=120):
        self.ensure()
        self.requests += 1
        self.p.stdin.write(json.dumps(req) + "\n")
        self.p.stdin.flush()
        line = self._readline(timeout)
        if line is None:
            self.hangs += 1
            self.p.kill()
            self.p = None
            return {"hang": True}
        if not line:
            self.p = None
            return {"crash": True}
        return json.loads(line)

    def close(self):
        if self.p is not None:
            try:
                self.p.stdin.close()
                self.p.terminate()
            except Exception:
                pass


# ---------------------------------------------------------------- known findings
def load_known():
    p = os.path.join(VERIF, "known_findings.json")
    if not os.path.exists(p):
        return []
    return json.load(open(p))["findings"]


def match_known(known, prop, v):
    for k in known:
        if k.get("status") != "known" or k["property"] != prop:
            continue
        m = k["match"]
        if not re.search(m.get("family", ""), v["family"]):
            continue
        if not re.search(m.get("what", ""), v["what"]):
            continue
        ok = True
        for key, rx in m.get("args", {}).items():
            if not re.search(rx, json.dumps(v["args"].get(key))):
                ok = False
        if ok:
            return k
    return None


# ---------------------------------------------------------------- helpers
def _hexparams(pv, nudge=0):
    out = {}
    for k, v in pv.items():
        f = float(Fraction(v))
        if nudge:
            f = math.nextafter(f, math.inf if nudge > 0 else -math.inf)
        out[k] = f.hex()
    return out


def _cmp_outputs(sym, conc, rtol=1e-6, atol=1e-7):
    if sym is None or conc is None or len(sym) != len(conc):
        return False
    for a, b in zip(sym, conc):
        if a is None or b is None:
            continue
        if isinstance(a, str) and a.startswith("s:") or isinstance(b, str) and b.startswith("s:"):
            if a != b:
                return False
            continue
        if isinstance(b, str):
            b = float.fromhex(b)
        if isinstance(a, bool) or isinstance(b, bool):
            if bool(a) != bool(b):
                return False
            continue
        if isinstance(a, float) and math.isnan(a):
            continue
        if not (abs(a - b) <= atol + rtol * max(abs(a), abs(b))):
            return False
    return True


def _modes_agree(r, r2):
    if (r2.get("exc_type") != r.get("exc_type")) or ((r2.get("outputs") is None) != (r.get("outputs") is None)):
        return False
    if r.get("outputs") is None:
        return True
    conv = lambda xs: [None if x is None else (x if not isinstance(x, str) or x.startswith("s:") else float.fromhex(x)) for x in xs]
    return _cmp_outputs(conv(r2["outputs"]), r["outputs"], rtol=1e-6, atol=1e-9)


def _cross_mode_boundary(rep_jit, rep_py, req):
    """The property compares the modes away from decision boundaries: True if both modes agree a hair away."""
    for rel in (1e-7, -1e-7, 1e-5, -1e-5):
        params = {}
        for k, v in req["params"].items():
            f = float.fromhex(v)
            params[k] = (f + rel * max(1.0, abs(f))).hex() if not k.startswith("aux") else v
        rq = dict(req, params=params)
        if _modes_agree(rep_jit.call(rq), rep_py.call(rq)):
            return True
    return False


def _boundary_witness(rep, req, p):
    """Replays at slightly moved parameters; True if the compiled code reproduces the symbolic outputs there."""
    for rel in (1e-9, -1e-9, 1e-6, -1e-6, 1e-4, -1e-4):
        params = {}
        for k, v in req["params"].items():
            f = float.fromhex(v)
            params[k] = (f + rel * max(1.0, abs(f))).hex() if not k.startswith("aux") else v
        r = rep.call(dict(req, params=params))
        if r.get("outputs") is not None and _cmp_outputs(p["outputs"], r["outputs"], rtol=1e-3, atol=1e-3):
            return True
    return False


def run_check(prop, harness_name, tier, seed, replay_path=None, selftest=False, nproc=None, jobs_filter=None):
    t_start = time.time()
    sys.path.insert(0, VERIF)
    H = importlib.import_module("harness." + harness_name)
    os.makedirs(os.path.join(OUT, "evidence"), exist_ok=True)
    os.makedirs(os.path.join(OUT, "replays"), exist_ok=True)
    if replay_path:
        return do_replay(prop, replay_path)

    jobs = H.jobs(tier, seed)
    if jobs_filter:
        jobs = [j for j in jobs if re.search(jobs_filter, j["family"] + json.dumps(j["args"]))]
    if tier == "thorough":
        # the thorough job lists are larger than the wall budget: spread what is run over the whole list (seeded)
        import random
        random.Random(1234 + int(seed)).shuffle(jobs)
    elif getattr(H, "ROUND_ROBIN", True):
        # the wall budget cuts the tail of the job list: interleave the families so that each gets its share
        groups, order = {}, []
        for j in jobs:
            groups.setdefault(j["family"], []).append(j)
        lists = list(groups.values())
        while any(lists):
            for L in lists:
                if L:
                    order.append(L.pop(0))
        jobs = order
    for j in jobs:
        j["harness"] = harness_name
        j["tier"] = tier
    nproc = nproc or int(os.environ.get("VERIF_NPROC", "0")) or min(16, os.cpu_count() or 4)
    wall_budget = H.WALL_BUDGET[tier] if hasattr(H, "WALL_BUDGET") else {"quick": 240, "thorough": 2400}[tier]
    wall_budget *= float(os.environ.get("VERIF_BUDGET_SCALE", "1"))

    env = dict(os.environ)
    env["NUMBA_DISABLE_JIT"] = "1"
    os.environ["NUMBA_DISABLE_JIT"] = "1"   # inherited by spawned explorers
    os.environ["PYTHONPATH"] = VERIF + os.pathsep + os.environ.get("PYTHONPATH", "")
    rep_jit = Replayer("jit")
    rep_py = Replayer("nojit")
    rep_jit.start()
    rep_py.start()

    known = load_known()
    agg = {"paths": 0, "decisions": 0, "validated": 0, "witness_mismatch": 0, "witness_skipped": 0,
           "obligations": 0, "discharged": 0, "undecided": 0, "model_only": 0, "refuted_replayed": 0,
           "unexplored": 0, "queries": 0, "solver_s": 0.0, "unknown": 0, "aborted": {},
           "jobs": 0, "jobs_failed": 0, "inconclusive_paths": 0, "findings_model_only": 0,
           "jobs_skipped_budget": 0}
    samples, mismatches, violations, known_hits, harness_errors = [], [], [], {}, []
    families = {}
    describe = {}
    unrepro = {}
    killed_jobs = []

    def replay_candidate(job, params, what):
        """Replay on the real code in both modes, with ulp-neighbours; returns
        (reproduced, record)."""
        best = None
        for nudge in (0, 1, -1):
            req = {"harness": harness_name, "family": job["family"], "args": job["args"],
                   "params": _hexparams(params, nudge)}
            for rep in (rep_jit, rep_py):
                res = rep.call(req, timeout=H.REPLAY_TIMEOUT if hasattr(H, "REPLAY_TIMEOUT") else 120)
                bad = H.is_violation(what, res) if hasattr(H, "is_violation") else default_is_violation(what, res)
                if bad:
                    return True, {"mode": rep.mode, "request": req, "result": res, "why": bad}
                best = best or {"mode": rep.mode, "request": req, "result": res}
        return False, best

    def handle(res):
        job = res["job"]
        agg["jobs"] += 1
        fam = families.setdefault(job["family"], {"jobs": 0, "paths": 0, "solver_s": 0.0, "wall_s": 0.0, "unexplored": 0})
        fam["jobs"] += 1
        fam["wall_s"] = round(fam["wall_s"] + res.get("wall_s", 0.0), 1)
        if res.get("ok"):
            fam["solver_s"] = round(fam["solver_s"] + res["solver_s"], 1)
            fam["unexplored"] += res["unexplored"]
        if res.get("killed"):
            killed_jobs.append({"family": job["family"], "args": job["args"], "why": res["killed"]})
        if not res["ok"]:
            agg["jobs_failed"] += 1
            harness_errors.append({"job": job, "error": res["error"], "traceback": res.get("traceback", "")[-1500:]})
            return
        describe.update(res.get("describe") or {})
        agg["unexplored"] += res["unexplored"]
        agg["queries"] += res["queries"]
        agg["solver_s"] += res["solver_s"]
        agg["unknown"] += res["unknown"]
        agg["defined_checked"] = agg.get("defined_checked", 0) + res.get("defined_checked", 0)
        agg["defined_discharged"] = agg.get("defined_discharged", 0) + res.get("defined_discharged", 0)
        for p in res["paths"]:
            agg["paths"] += 1
            fam["paths"] += 1
            agg["decisions"] += p["decisions"]
            if p["inconclusive"]:
                agg["inconclusive_paths"] += 1
            if p["status"] not in ("ok", "exception"):
                agg["aborted"][p["status"]] = agg["aborted"].get(p["status"], 0) + 1
                if p["status"] == "bound-exceeded" and hasattr(H, "on_bound_exceeded"):
                    pass
            # witness validation on the compiled code
            if p["status"] == "ok" and p.get("witness") is not None and p.get("outputs") is not None:
                req = {"harness": harness_name, "family": job["family"], "args": job["args"],
                       "params": _hexparams(p["witness"])}
                r = rep_jit.call(req)
                if r.get("harness_error"):
                    harness_errors.append({"job": job, "error": r["harness_error"], "traceback": r.get("traceback", "")[-1500:]})
                elif r.get("exception") or r.get("hang") or r.get("crash"):
                    agg["witness_mismatch"] += 1
                    mismatches.append({"family": job["family"], "args": job["args"], "witness": p["witness"],
                                       "concrete": {k: r.get(k) for k in ("exception", "hang", "crash")}})
                elif _cmp_outputs(p["outputs"], r["outputs"]):
                    agg["validated"] += 1
                    if getattr(H, "CROSS_MODE", False):
                        r2 = rep_py.call(req)
                        agg["cross_mode_compared"] = agg.get("cross_mode_compared", 0) + 1
                        same = (r2.get("exc_type") == r.get("exc_type")) and (r2.get("outputs") is None) == (r.get("outputs") is None) and \
                            (r.get("outputs") is None or _cmp_outputs([None if x is None else (x if not isinstance(x, str) or x.startswith("s:") else float.fromhex(x)) for x in r2["outputs"]], r["outputs"], rtol=1e-6, atol=1e-9))
                        if not same and _cross_mode_boundary(rep_jit, rep_py, req):
                            agg["cross_mode_boundary_only"] = agg.get("cross_mode_boundary_only", 0) + 1
                        elif not same:
                            violations.append({"family": job["family"], "args": job["args"], "what": "cross_mode:compiled and interpreted results differ",
                                               "params": p["witness"], "replay": {"mode": "jit", "request": req, "result": r, "interpreted": r2,
                                                                                   "why": "compiled and interpreted execution disagree at a path witness"}})
                elif r.get("failed"):
                    # the compiled code takes another path at this witness AND violates the property there:
                    # a real failing input (found by witness validation, replayed by construction)
                    agg["witness_violations"] = agg.get("witness_violations", 0) + 1
                    for name in r["failed"][:3]:
                        violations.append({"family": job["family"], "args": job["args"], "what": "obligation:" + name,
                                           "params": p["witness"],
                                           "replay": {"mode": "jit", "request": req, "result": r,
                                                      "why": "at a path witness the compiled code diverges from the exact-arithmetic path and obligation %s fails there" % name}})
                elif _boundary_witness(rep_jit, req, p):
                    # the compiled code agrees with the symbolic path a hair away: the solver's witness sits on a
                    # branch boundary (z3 likes them), where rounding legitimately picks the neighbouring path
                    agg["witness_on_boundary"] = agg.get("witness_on_boundary", 0) + 1
                else:
                    agg["witness_mismatch"] += 1
                    if len(mismatches) < 20:
                        mismatches.append({"family": job["family"], "args": job["args"], "witness": p["witness"],
                                           "trace": p["trace"], "symbolic": p["outputs"],
                                           "concrete": [None if x is None else (x if (not isinstance(x, str) or x.startswith("s:")) else float.fromhex(x)) for x in r["outputs"]]})
            elif p["status"] == "ok":
                agg["witness_skipped"] += 1
            # obligations
            for o in p["obligs"]:
                agg["obligations"] += 1
                if o["status"] == "discharged":
                    agg["discharged"] += 1
                elif o["status"] == "undecided":
                    agg["undecided"] += 1
                elif o["status"] == "refuted":
                    what = "obligation:" + o["name"]
                    if o["params"] is None:
                        agg["undecided"] += 1
                        continue
                    ok, rec = replay_candidate(job, o["params"], what)
                    if ok:
                        agg["refuted_replayed"] += 1
                        violations.append({"family": job["family"], "args": job["args"], "what": what,
                                           "params": o["params"], "replay": rec})
                    else:
                        agg["model_only"] += 1
                        mo = agg.setdefault("model_only_names", {})
                        mo[o["name"]] = mo.get(o["name"], 0) + 1
            # definedness / exception findings
            for f in p["findings"]:
                what = "finding:%s:%s" % (f["kind"], f["detail"])
                if f["params"] is None:
                    continue
                legit = (f["kind"] == "exception" and p.get("exc_type") in getattr(H, "EXPECTED_EXCEPTIONS", ()))
                if legit:
                    continue
                ok, rec = replay_candidate(job, f["params"], what)
                if ok:
                    violations.append({"family": job["family"], "args": job["args"], "what": what,
                                       "params": f["params"], "replay": rec})
                else:
                    agg["findings_model_only"] += 1
                    key = what[:160]
                    unrepro[key] = unrepro.get(key, 0) + 1
            if p["status"] == "bound-exceeded":
                agg.setdefault("bound_exceeded", 0)
                agg["bound_exceeded"] += 1
            if len(samples) < 6 and p["status"] == "ok" and p.get("witness") is not None:
                samples.append({"family": job["family"], "args": job["args"], "path": p["trace"][:60],
                                "decisions": p["decisions"], "witness": p["witness"],
                                "obligations": [(o["name"], o["status"], o["how"]) for o in p["obligs"]][:12]})

    from symx import pool as _pool
    deadline = t_start + wall_budget
    # heavy jobs first is not known in advance; keep the given order
    hard = getattr(H, "JOB_HARD_LIMIT", None)

    def hard_limit(job):
        if hard:
            return hard
        return (1.25 * (job.get("budget_s") or getattr(H, "JOB_BUDGET", 120)) + 60.0) * float(os.environ.get("VERIF_BUDGET_SCALE", "1"))
    pl = _pool.Pool(nproc, hard_limit)
    killed = pl.run(jobs, handle, deadline, harness_errors)
    agg["jobs_skipped_budget"] = killed["not_started"]
    agg["jobs_killed_solver_hang"] = killed["killed"]
    agg["unexplored"] += killed["killed"]

    rep_jit.close()
    rep_py.close()

    # ---- verdicts
    new_viol, lines = [], []
    for v in violations:
        k = match_known(known, prop, v)
        if k is not None:
            known_hits.setdefault(k["id"], {"k": k, "n": 0})["n"] += 1
        else:
            new_viol.append(v)
    for kid, kh in known_hits.items():
        lines.append("KNOWN-FINDING: property=%s %s (%d instance(s) this run)" % (prop, kh["k"]["description"], kh["n"]))
    rc = 0
    seen = set()
    for i, v in enumerate(new_viol):
        key = (v["family"], v["what"])
        if key in seen:
            continue
        seen.add(key)
        path = os.path.join(OUT, "replays", "%s_%s_%d.json" % (prop, tier, len(seen)))
        json.dump({"property": prop, "harness": harness_name, "family": v["family"], "args": v["args"],
                   "what": v["what"], "params": v["params"], "replay": v["replay"]}, open(path, "w"), indent=1)
        lines.append("VIOLATION property=%s replay=%s" % (prop, path))
        lines.append("  " + v["family"] + " " + json.dumps(v["args"]) + " :: " + v["what"] + " :: " + str(v["replay"].get("why")))
        rc = 1
    total_val = agg["validated"] + agg["witness_mismatch"]
    if harness_errors:
        rc = rc or HARNESS_ERROR
        lines.append("HARNESS-ERROR: %d job(s) failed in the harness/engine: %s" % (len(harness_errors), harness_errors[0]["error"]))
    if total_val >= 10 and agg["witness_mismatch"] > getattr(H, "MISMATCH_LIMIT", 0.25) * total_val:
        rc = rc or HARNESS_ERROR
        lines.append("HARNESS-ERROR: %d of %d path witnesses disagree with the compiled code (encoding not validated)"
                     % (agg["witness_mismatch"], total_val))
    if agg["paths"] == 0:
        rc = rc or HARNESS_ERROR
        lines.append("HARNESS-ERROR: nothing explored")

    wall = time.time() - t_start
    ev = {
        "property_id": prop, "tier": tier, "seed": int(seed), "level": "model_checking",
        "coverage": {
            "states": max(agg["paths"], 0), "transitions": agg["decisions"] + agg["paths"],
            "traces_validated_against_impl": agg["validated"],
            "samples": samples or [{"note": "no completed path"}],
            "explanation": "states = feasible paths of the real functions explored symbolically (each decided by z3 for ALL "
                           "values of the symbolic parameters satisfying its path condition); transitions = branch decisions decided by the solver plus one terminal (obligation) step per path; "
                           "traces_validated = path witnesses whose symbolic outputs matched the compiled (numba) code.",
            "obligations": agg["obligations"] + agg.get("defined_checked", 0),
            "discharged": agg["discharged"] + agg.get("defined_discharged", 0), "undecided": agg["undecided"],
            "property_obligations": agg["obligations"], "property_obligations_discharged": agg["discharged"],
            "definedness_obligations": agg.get("defined_checked", 0), "definedness_discharged": agg.get("defined_discharged", 0),
            "refuted_model_only": agg["model_only"], "refuted_model_only_by_obligation": agg.get("model_only_names", {}), "refuted_and_replayed": agg["refuted_replayed"],
            "definedness_findings_model_only": agg["findings_model_only"],
            "paths_aborted": agg["aborted"], "paths_inconclusive_branch": agg["inconclusive_paths"],
            "pending_paths_unexplored": agg["unexplored"], "jobs": agg["jobs"], "jobs_failed": agg["jobs_failed"],
            "jobs_not_started_wall_budget": agg["jobs_skipped_budget"],
            "jobs_killed_solver_ignored_timeout": agg.get("jobs_killed_solver_hang", 0),
            "jobs_killed": killed_jobs[:10],
            "witness_mismatch": agg["witness_mismatch"], "witness_not_available": agg["witness_skipped"],
            "witness_divergent_and_violating": agg.get("witness_violations", 0),
            "witness_on_branch_boundary": agg.get("witness_on_boundary", 0),
            "cross_mode_compared_at_witnesses": agg.get("cross_mode_compared", 0), "cross_mode_boundary_only": agg.get("cross_mode_boundary_only", 0),
            "witness_mismatch_samples": mismatches[:5],
            "solver_queries": agg["queries"], "solver_s": round(agg["solver_s"], 2), "solver_unknown": agg["unknown"],
            "families": families,
            "functions_encoded": getattr(H, "FUNCTIONS", []),
            "bounds": getattr(H, "BOUNDS", {}).get(tier, getattr(H, "BOUNDS", {})),
            "stubs": getattr(H, "STUBS", []),
            "outside_claim": getattr(H, "OUTSIDE", []),
            "known_findings_hit": {k: v["n"] for k, v in known_hits.items()},
            "replayer_requests": {"jit": rep_jit.requests, "nojit": rep_py.requests},
            "harness_errors": harness_errors[:5],
            "describe": describe,
            "findings_not_reproduced_on_real_code": dict(sorted(unrepro.items(), key=lambda kv: -kv[1])[:8]),
        },
        "assumptions": getattr(H, "ASSUMPTIONS", []) + [
            "float64 modelled as exact reals: rounding-only defects are outside the claim",
            "claims hold for the scenario families listed in coverage.families, for ALL real values of their parameters within the stated ranges; other inputs are outside",
        ],
        "wall_s": round(wall, 2),
        "violations": len(seen),
    }
    json.dump(ev, open(os.path.join(OUT, "evidence", prop + ".json"), "w"), indent=1, default=str)
    for ln in lines:
        print(ln)
    for k_, n_ in sorted(unrepro.items(), key=lambda kv: -kv[1])[:5]:
        print("note: not reproduced on the real code (model-only, %d x): %s" % (n_, k_))
    print("%s %s: jobs=%d paths=%d decisions=%d obligations=%d discharged=%d undecided=%d model_only=%d validated=%d mismatch=%d "
          "unexplored=%d queries=%d solver_s=%.1f wall=%.1fs rc=%d" % (
              prop, tier, agg["jobs"], agg["paths"], agg["decisions"], agg["obligations"], agg["discharged"],
              agg["undecided"], agg["model_only"], agg["validated"], agg["witness_mismatch"], agg["unexplored"],
              agg["queries"], agg["solver_s"], wall, rc))
    return rc


def default_is_violation(what, res):
    """Does the concrete run on the real code exhibit the problem?"""
    if res.get("harness_error"):
        return None
    if res.get("hang"):
        return "real code did not return within the replay timeout"
    if res.get("crash"):
        return "real code crashed the process"
    if what.startswith("obligation:"):
        name = what.split(":", 1)[1]
        if res.get("exception") and not res.get("expected_exception"):
            return "raised " + res["exception"]
        if name in (res.get("failed") or []):
            return "obligation %s fails on the real code" % name
        return None
    # finding
    if res.get("exception") and not res.get("expected_exception"):
        return "raised " + res["exception"]
    if res.get("nonfinite"):
        return "non-finite output"
    if res.get("failed"):
        return "obligations fail on the real code: %s" % ",".join(res["failed"][:4])
    return None


def do_replay(prop, path):
    rec = json.load(open(path))
    H = importlib.import_module("harness." + rec["harness"])
    req = rec["replay"]["request"]
    mode = rec["replay"].get("mode", "jit")
    rep = Replayer(mode)
    rep.start()
    res = rep.call(req)
    rep.close()
    what = rec["what"]
    bad = H.is_violation(what, res) if hasattr(H, "is_violation") else default_is_violation(what, res)
    print(json.dumps({"request": req, "mode": mode, "result": res}, indent=1))
    if bad:
        print("VIOLATION property=%s replay=%s" % (prop, path))
        print("  " + bad)
        return 1
    print("not reproduced")
    return 0
