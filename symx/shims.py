"""numpy / math / builtins shims that keep symbolic scalars alive inside numpy
object arrays, and the patcher that rebinds them in distance3d's modules."""
import builtins
import math as _math
import sys
import types

import numpy as _np
import z3

from . import core
from .core import (SymReal, SymBool, UNINIT, _Uninit, Unsupported, lift, liftb,
                   ite, is_sym, UninitRead)


# ---------------------------------------------------------------- arrays
class SArr(_np.ndarray):
    """Object ndarray whose comparisons return object arrays of SymBool
    instead of forcing bool() per element."""

    def __array_finalize__(self, obj):
        pass

    def _cmp(self, o, uf):
        if self.dtype != object:
            return uf(_np.asarray(self), o)
        r = uf(_np.asarray(self), _np.asarray(o, dtype=object) if not isinstance(o, _np.ndarray) else o, dtype=object)
        return r.view(SArr) if isinstance(r, _np.ndarray) else r

    def __lt__(self, o): return self._cmp(o, _np.less)
    def __le__(self, o): return self._cmp(o, _np.less_equal)
    def __gt__(self, o): return self._cmp(o, _np.greater)
    def __ge__(self, o): return self._cmp(o, _np.greater_equal)
    def __eq__(self, o): return self._cmp(o, _np.equal)
    def __ne__(self, o): return self._cmp(o, _np.not_equal)
    __hash__ = None

    def __getitem__(self, idx):
        return _np.ndarray.__getitem__(self, _concretise_index(idx))

    def __setitem__(self, idx, val):
        return _np.ndarray.__setitem__(self, _concretise_index(idx), val)

    def astype(self, dtype, *a, **k):
        if self.dtype == object and _np.dtype(dtype).kind == "f":
            return self.copy()
        return _np.ndarray.astype(self, dtype, *a, **k)

    def __bool__(self):
        if self.size == 1:
            return bool(self.reshape(-1)[0])
        raise ValueError("truth value of an array with more than one element is ambiguous")

    # reductions that need comparisons
    def max(self, axis=None, **k): return NP.max(self, axis=axis)
    def min(self, axis=None, **k): return NP.min(self, axis=axis)
    def argmax(self, axis=None, **k): return NP.argmax(self, axis=axis)
    def argmin(self, axis=None, **k): return NP.argmin(self, axis=axis)
    def all(self, axis=None, **k): return NP.all(self, axis=axis)
    def argsort(self, *a, **k): return NP.argsort(self)
    def any(self, axis=None, **k): return NP.any(self, axis=axis)


def _concretise_mask(m):
    """Object array of SymBool/bool -> real bool array (forks per symbolic entry)."""
    out = _np.empty(m.shape, dtype=bool)
    for idx in _np.ndindex(m.shape):
        out[idx] = bool(m[idx])
    return out


def _is_obj_mask(i):
    if isinstance(i, _np.ndarray) and i.dtype == object and i.size > 0:
        x = i.flat[0]
        return isinstance(x, (SymBool, bool, _np.bool_))
    return False


def _concretise_index(idx):
    if _is_obj_mask(idx):
        return _concretise_mask(idx)
    if isinstance(idx, tuple) and any(_is_obj_mask(i) for i in idx):
        return tuple(_concretise_mask(i) if _is_obj_mask(i) else i for i in idx)
    if isinstance(idx, _np.ndarray) and idx.dtype == object and idx.size == 0:
        return _np.zeros(idx.shape, dtype=bool)
    return idx


class BArr(_np.ndarray):
    """bool ndarray that accepts symbolic masks as indices (by forking)."""

    def __array_finalize__(self, obj):
        pass

    def __getitem__(self, idx):
        return _np.ndarray.__getitem__(self, _concretise_index(idx))

    def __setitem__(self, idx, val):
        return _np.ndarray.__setitem__(self, _concretise_index(idx), val)


def _has_sym(a):
    if isinstance(a, (SymReal, SymBool, _Uninit)):
        return True
    if isinstance(a, _np.ndarray):
        if a.dtype != object:
            return False
        for x in a.flat:
            if isinstance(x, (SymReal, SymBool, _Uninit)):
                return True
        return False
    if isinstance(a, (list, tuple)):
        return any(_has_sym(x) for x in a)
    return False


def oarr(x):
    """Object SArr from anything array-like."""
    if isinstance(x, SArr) and x.dtype == object:
        return x
    a = _np.array(x, dtype=object) if not isinstance(x, _np.ndarray) else x.astype(object)
    return a.view(SArr)


def _is_float_dtype(dtype):
    if dtype is None:
        return True
    if dtype is float or dtype is object:
        return True
    try:
        return _np.dtype(dtype).kind in "fO"
    except TypeError:
        return False


def _map(f, a):
    a = _np.asarray(a, dtype=object) if not isinstance(a, _np.ndarray) else a
    out = _np.empty(a.shape, dtype=object)
    for idx in _np.ndindex(a.shape):
        out[idx] = f(a[idx])
    return out.view(SArr)


def _map2(f, a, b):
    a, b = _np.broadcast_arrays(_np.asarray(a, dtype=object), _np.asarray(b, dtype=object))
    out = _np.empty(a.shape, dtype=object)
    for idx in _np.ndindex(a.shape):
        out[idx] = f(a[idx], b[idx])
    return out.view(SArr)


# ---------------------------------------------------------------- scalars
def s_sqrt(x):
    if isinstance(x, SymReal):
        return x.sqrt()
    if isinstance(x, _Uninit):
        return x
    if isinstance(x, _np.ndarray):
        if x.dtype == object:
            return _map(s_sqrt, x)
        return _np.sqrt(x)
    if x < 0:
        core.ENGINE._finding("negative-radicand", "sqrt(%r)" % (x,), core.ENGINE.model)
        raise core.PathAbort("definedness", "sqrt of negative constant")
    return _math.sqrt(x)


def s_min2(a, b):
    if isinstance(a, SymReal) or isinstance(b, SymReal):
        ea, eb = lift(a), lift(b)
        return SymReal(z3.If(eb < ea, eb, ea))
    return b if b < a else a


def s_max2(a, b):
    if isinstance(a, SymReal) or isinstance(b, SymReal):
        ea, eb = lift(a), lift(b)
        return SymReal(z3.If(eb > ea, eb, ea))
    return b if b > a else a


def s_min(*args, **kw):
    if kw:
        return builtins.min(*args, **kw)
    if len(args) == 1:
        args = list(args[0])
    if not _has_sym(list(args)):
        return builtins.min(args)
    r = args[0]
    for x in args[1:]:
        r = s_min2(r, x)
    return r


def s_max(*args, **kw):
    if kw:
        return builtins.max(*args, **kw)
    if len(args) == 1:
        args = list(args[0])
    if not _has_sym(list(args)):
        return builtins.max(args)
    r = args[0]
    for x in args[1:]:
        r = s_max2(r, x)
    return r


def s_sign(x):
    if isinstance(x, SymReal):
        return SymReal(z3.If(x.e > 0, z3.RealVal(1), z3.If(x.e < 0, z3.RealVal(-1), z3.RealVal(0))))
    if isinstance(x, _Uninit):
        return x
    return float(_np.sign(x))


def s_abs(x):
    if isinstance(x, _np.ndarray):
        if x.dtype == object:
            return _map(builtins.abs, x)
        return _np.abs(x)
    return builtins.abs(x)


def s_any(it):
    if isinstance(it, _np.ndarray):
        return NP.any(it)
    items = list(it)
    if any(isinstance(x, SymBool) for x in items):
        return SymBool(z3.Or(*[liftb(x) for x in items]))
    return builtins.any(items)


def s_all(it):
    if isinstance(it, _np.ndarray):
        return NP.all(it)
    items = list(it)
    if any(isinstance(x, SymBool) for x in items):
        return SymBool(z3.And(*[liftb(x) for x in items]))
    return builtins.all(items)


def s_float(x=0.0):
    if isinstance(x, (SymReal, _Uninit)):
        return x
    return float(x)


def _trig(name):
    f = getattr(_math, name)

    def g(x):
        if isinstance(x, _np.ndarray):
            if x.dtype == object:
                return _map(g, x)
            return getattr(_np, name if name not in ("acos", "atan", "asin") else "arc" + name[1:])(x)
        if isinstance(x, SymReal):
            v = z3.simplify(x.e)
            if z3.is_rational_value(v):
                return f(core._num(v))
            raise Unsupported("%s of a symbolic value" % name)
        return f(x)
    return g


# ---------------------------------------------------------------- numpy shim
class NPShim(types.ModuleType):
    def __init__(self):
        super().__init__("np_shim")
        self.linalg = types.SimpleNamespace(
            norm=self._norm, LinAlgError=_np.linalg.LinAlgError,
            pinv=self._pinv, solve=self._solve, inv=self._inv, det=self._det)
        self.random = types.SimpleNamespace(shuffle=_nd_shuffle)
        self.sin, self.cos, self.tan = _trig("sin"), _trig("cos"), _trig("tan")
        self.arccos, self.arcsin, self.arctan = _trig("acos"), _trig("asin"), _trig("atan")

    def __getattr__(self, k):
        return getattr(_np, k)

    # -- creation ---------------------------------------------------------
    def zeros(self, shape, dtype=None, **k):
        if not _is_float_dtype(dtype):
            return _np.zeros(shape, dtype=dtype)
        a = _np.empty(shape, dtype=object)
        a.fill(0.0)
        return a.view(SArr)

    def ones(self, shape, dtype=None, **k):
        if not _is_float_dtype(dtype):
            return _np.ones(shape, dtype=dtype)
        a = _np.empty(shape, dtype=object)
        a.fill(1.0)
        return a.view(SArr)

    def full(self, shape, v, dtype=None, **k):
        if dtype is None and isinstance(v, (int, _np.integer)) and not isinstance(v, bool):
            return _np.full(shape, v)
        if not _is_float_dtype(dtype):
            return _np.full(shape, v, dtype=dtype)
        a = _np.empty(shape, dtype=object)
        a.fill(v)
        return a.view(SArr)

    def empty(self, shape, dtype=None, **k):
        if dtype is bool:
            return _np.zeros(shape, dtype=bool).view(BArr)
        if not _is_float_dtype(dtype):
            return _np.zeros(shape, dtype=dtype)
        a = _np.empty(shape, dtype=object)
        a.fill(UNINIT)
        return a.view(SArr)

    def eye(self, n, dtype=None, **k):
        a = _np.empty((n, n), dtype=object)
        a.fill(0.0)
        for i in range(n):
            a[i, i] = 1.0
        return a.view(SArr)

    def array(self, x, dtype=None, **k):
        if not _is_float_dtype(dtype):
            return _np.array(x, dtype=dtype)
        if dtype is None and not _has_sym(x):
            a = _np.array(x)
            if a.dtype.kind not in "fO":
                return a
        return _np.array(x, dtype=object).view(SArr)

    def asarray(self, x, dtype=None, **k):
        if isinstance(x, _np.ndarray) and (dtype is None or x.dtype == dtype):
            return x
        return self.array(x, dtype=dtype)

    def copy(self, x):
        if isinstance(x, _np.ndarray):
            return x.copy()
        return self.array(x)

    def ascontiguousarray(self, a, dtype=None):
        a = a if isinstance(a, _np.ndarray) else self.array(a)
        if a.flags.c_contiguous:
            return a
        return a.copy(order="C")

    # -- elementwise ------------------------------------------------------
    def sqrt(self, x):
        return s_sqrt(x)

    def abs(self, x):
        return s_abs(x)

    absolute = abs

    def sign(self, x):
        if isinstance(x, _np.ndarray):
            if x.dtype == object:
                return _map(s_sign, x)
            return _np.sign(x)
        return s_sign(x)

    def minimum(self, a, b):
        if _has_sym(a) or _has_sym(b):
            if isinstance(a, _np.ndarray) or isinstance(b, _np.ndarray):
                return _map2(s_min2, a, b)
            return s_min2(a, b)
        return _np.minimum(a, b)

    def maximum(self, a, b):
        if _has_sym(a) or _has_sym(b):
            if isinstance(a, _np.ndarray) or isinstance(b, _np.ndarray):
                return _map2(s_max2, a, b)
            return s_max2(a, b)
        return _np.maximum(a, b)

    def clip(self, x, lo, hi):
        return self.minimum(self.maximum(x, lo), hi)

    def where(self, cond, a=None, b=None):
        if a is None:
            c = _np.asarray(cond)
            if c.dtype == object:
                c = _np.array([bool(x) for x in c.flat], dtype=bool).reshape(c.shape)
            return tuple(a.view(BArr) for a in _np.where(c))
        c = _np.asarray(cond)
        if c.dtype == object or _has_sym(a) or _has_sym(b):
            c, aa, bb = _np.broadcast_arrays(_np.asarray(c, dtype=object), _np.asarray(a, dtype=object),
                                             _np.asarray(b, dtype=object))
            out = _np.empty(c.shape, dtype=object)
            for idx in _np.ndindex(c.shape):
                out[idx] = ite(c[idx], aa[idx], bb[idx])
            return out.view(SArr)
        return _np.where(c, a, b)

    def logical_not(self, a):
        a = _np.asarray(a)
        if a.dtype == object:
            return _map(lambda x: ~x if isinstance(x, SymBool) else (not x), a)
        return _np.logical_not(a)

    def logical_and(self, a, b):
        if _has_sym(a) or _has_sym(b):
            return _map2(lambda x, y: SymBool(z3.And(liftb(x), liftb(y))), a, b)
        return _np.logical_and(a, b)

    def logical_or(self, a, b):
        if _has_sym(a) or _has_sym(b):
            return _map2(lambda x, y: SymBool(z3.Or(liftb(x), liftb(y))), a, b)
        return _np.logical_or(a, b)

    def isclose(self, a, b, rtol=1e-05, atol=1e-08, equal_nan=False):
        if _has_sym(a) or _has_sym(b):
            def f(x, y):
                d = x - y
                lim = atol + rtol * builtins.abs(y)
                return SymBool(z3.And(lift(d) <= lift(lim), lift(-d) <= lift(lim))) if is_sym(d) or is_sym(lim) \
                    else bool(builtins.abs(d) <= lim)
            if isinstance(a, _np.ndarray) or isinstance(b, _np.ndarray):
                return _map2(f, a, b)
            return f(a, b)
        return _np.isclose(a, b, rtol=rtol, atol=atol, equal_nan=equal_nan)

    def allclose(self, a, b, rtol=1e-05, atol=1e-08, equal_nan=False):
        if _has_sym(a) or _has_sym(b):
            return self.all(self.isclose(a, b, rtol=rtol, atol=atol))
        return _np.allclose(a, b, rtol=rtol, atol=atol, equal_nan=equal_nan)

    def array_equal(self, a, b):
        if _has_sym(a) or _has_sym(b):
            a, b = _np.asarray(a, dtype=object), _np.asarray(b, dtype=object)
            if a.shape != b.shape:
                return False
            return self.all(_map2(lambda x, y: x == y, a, b))
        return _np.array_equal(a, b)

    def isnan(self, a):
        if _has_sym(a):
            if isinstance(a, _np.ndarray):
                return _np.zeros(a.shape, dtype=bool)
            return False
        return _np.isnan(a)

    def isfinite(self, a):
        if _has_sym(a):
            if isinstance(a, _np.ndarray):
                return _np.ones(a.shape, dtype=bool)
            return True
        return _np.isfinite(a)

    def arctan2(self, y, x):
        if _has_sym(y) or _has_sym(x):
            if isinstance(y, _np.ndarray) or isinstance(x, _np.ndarray):
                return _map2(Angle, y, x)
            return Angle(y, x)
        if isinstance(y, _np.ndarray) and y.dtype == object:
            y = y.astype(float) if type(y) is _np.ndarray else _np.array(y.tolist(), dtype=float)
        if isinstance(x, _np.ndarray) and x.dtype == object:
            x = x.astype(float) if type(x) is _np.ndarray else _np.array(x.tolist(), dtype=float)
        return _np.arctan2(y, x)

    def floor(self, x):
        if _has_sym(x):
            raise Unsupported("floor of symbolic")
        return _np.floor(x)

    def ceil(self, x):
        if _has_sym(x):
            raise Unsupported("ceil of symbolic")
        return _np.ceil(x)

    # -- reductions -------------------------------------------------------
    def _reduce_axis(self, f, a, axis):
        a = _np.asarray(a)
        if axis is None:
            return f(list(a.flat))
        a = _np.moveaxis(a, axis, -1)
        out = _np.empty(a.shape[:-1], dtype=object)
        for idx in _np.ndindex(a.shape[:-1]):
            out[idx] = f(list(a[idx]))
        if out.ndim == 0:
            return out.item()
        return out.view(SArr)

    def all(self, a, axis=None, **k):
        a = _np.asarray(a)
        if a.dtype != object:
            return _np.all(a, axis=axis)

        def f(items):
            if any(isinstance(x, SymBool) for x in items):
                return SymBool(z3.And(*[liftb(x) for x in items]))
            return builtins.all(bool(x) for x in items)
        return self._reduce_axis(f, a, axis)

    def any(self, a, axis=None, **k):
        a = _np.asarray(a)
        if a.dtype != object:
            return _np.any(a, axis=axis)

        def f(items):
            if any(isinstance(x, SymBool) for x in items):
                return SymBool(z3.Or(*[liftb(x) for x in items]))
            return builtins.any(bool(x) for x in items)
        return self._reduce_axis(f, a, axis)

    def max(self, a, axis=None, **k):
        a = _np.asarray(a)
        if a.dtype != object:
            return _np.max(a, axis=axis)
        return self._reduce_axis(lambda it: s_max(it), a, axis)

    def min(self, a, axis=None, **k):
        a = _np.asarray(a)
        if a.dtype != object:
            return _np.min(a, axis=axis)
        return self._reduce_axis(lambda it: s_min(it), a, axis)

    amax, amin = max, min

    def argmax(self, a, axis=None, **k):
        a = _np.asarray(a) if not isinstance(a, list) else _np.array(a, dtype=object)
        if a.dtype != object:
            return _np.argmax(a, axis=axis)

        def f(items):
            bi = 0
            for i in range(1, len(items)):
                if items[i] > items[bi]:   # first maximal element, as numpy
                    bi = i
            return bi
        r = self._reduce_axis(f, a, axis)
        return r if not isinstance(r, _np.ndarray) else r.astype(int)

    def argmin(self, a, axis=None, **k):
        a = _np.asarray(a) if not isinstance(a, list) else _np.array(a, dtype=object)
        if a.dtype != object:
            return _np.argmin(a, axis=axis)

        def f(items):
            bi = 0
            for i in range(1, len(items)):
                if items[i] < items[bi]:
                    bi = i
            return bi
        r = self._reduce_axis(f, a, axis)
        return r if not isinstance(r, _np.ndarray) else r.astype(int)

    def argsort(self, a, **k):
        a = _np.asarray(a)
        if a.dtype != object:
            return _np.argsort(a, **k)
        idx = list(range(len(a)))
        # insertion sort (stable); each comparison is a branch
        for i in range(1, len(idx)):
            j = i
            while j > 0 and a[idx[j]] < a[idx[j - 1]]:
                idx[j], idx[j - 1] = idx[j - 1], idx[j]
                j -= 1
        return _np.array(idx, dtype=int)

    def sum(self, a, axis=None, **k):
        r = _np.sum(_np.asarray(a) if not isinstance(a, _np.ndarray) else a, axis=axis)
        if isinstance(r, _np.ndarray) and r.ndim == 0:
            r = r.item()
        return r

    def mean(self, a, axis=None, **k):
        a = _np.asarray(a)
        if a.dtype != object:
            return _np.mean(a, axis=axis)
        n = a.size if axis is None else a.shape[axis]
        s = _np.sum(a, axis=axis)
        return s / float(n)

    def dot(self, a, b):
        return _np.dot(a, b)

    def cross(self, a, b):
        a = _np.asarray(a)
        b = _np.asarray(b)
        if a.dtype != object and b.dtype != object:
            return _np.cross(a, b)
        if a.ndim == 1 and b.ndim == 1 and len(a) == 3 and len(b) == 3:
            out = _np.empty(3, dtype=object)
            out[0] = a[1] * b[2] - a[2] * b[1]
            out[1] = a[2] * b[0] - a[0] * b[2]
            out[2] = a[0] * b[1] - a[1] * b[0]
            return out.view(SArr)
        a, b = _np.broadcast_arrays(a.astype(object), b.astype(object))
        out = _np.empty(a.shape, dtype=object)
        out[..., 0] = a[..., 1] * b[..., 2] - a[..., 2] * b[..., 1]
        out[..., 1] = a[..., 2] * b[..., 0] - a[..., 0] * b[..., 2]
        out[..., 2] = a[..., 0] * b[..., 1] - a[..., 1] * b[..., 0]
        return out.view(SArr)

    # -- linalg -----------------------------------------------------------
    def _norm(self, v, ord=None, axis=None, **k):
        v = _np.asarray(v)
        if v.dtype != object:
            return _np.linalg.norm(v, ord=ord, axis=axis)
        if ord not in (None, 2):
            raise Unsupported("norm ord=%r" % (ord,))
        if axis is None:
            s = 0.0
            for x in v.flat:
                s = s + x * x
            return s_sqrt(s)
        sq = _np.sum(v * v, axis=axis)
        return s_sqrt(_np.asarray(sq, dtype=object))

    def _det(self, M):
        M = _np.asarray(M)
        if M.dtype != object:
            return _np.linalg.det(M)
        n = M.shape[0]
        if n == 1:
            return M[0, 0]
        if n == 2:
            return M[0, 0] * M[1, 1] - M[0, 1] * M[1, 0]
        d = 0.0
        for j in range(n):
            if isinstance(M[0, j], (int, float)) and M[0, j] == 0:
                continue
            minor = _np.delete(_np.delete(M, 0, axis=0), j, axis=1)
            d = d + ((-1) ** j) * M[0, j] * self._det(minor)
        return d

    def _inv(self, M):
        M = _np.asarray(M)
        if M.dtype != object:
            return _np.linalg.inv(M)
        n = M.shape[0]
        det = self._det(M)
        out = _np.empty((n, n), dtype=object)
        for i in range(n):
            for j in range(n):
                minor = _np.delete(_np.delete(M, i, axis=0), j, axis=1)
                out[j, i] = ((-1) ** (i + j)) * self._det(minor) / det
        return out.view(SArr)

    def _pinv(self, M):
        M = _np.asarray(M)
        if M.dtype != object:
            return _np.linalg.pinv(M)
        if M.ndim == 3:
            out = _np.empty(M.shape, dtype=object)
            for i in range(M.shape[0]):
                out[i] = self._pinv(M[i])
            return out.view(SArr)
        if M.shape[0] != M.shape[1]:
            raise Unsupported("pinv of non-square symbolic matrix")
        return self._inv(M)   # contract: X.M = I when det != 0 (obligation by the division)

    def _solve(self, A, b):
        A = _np.asarray(A)
        b = _np.asarray(b)
        if A.dtype != object and b.dtype != object:
            return _np.linalg.solve(A, b)
        return _np.dot(self._inv(A.astype(object)), b)


def _nd_shuffle(arr):
    """np.random.shuffle stub: an arbitrary permutation (forks over all of them)."""
    n = len(arr)
    for i in range(n - 1, 0, -1):
        j = core.ENGINE.fork_int(0, i, "shuffle")
        if j != i:
            tmp = arr[i].copy() if isinstance(arr[i], _np.ndarray) else arr[i]
            arr[i] = arr[j]
            arr[j] = tmp


NP = NPShim()


class Angle:
    """arctan2(y, x) of symbolic arguments: only ordering is supported,
    decided exactly from quadrants and a cross product."""
    __slots__ = ("y", "x")

    def __init__(self, y, x):
        self.y, self.x = y, x

    def _half(self):
        # angle in (-pi, pi]: lower half (y<0) = 0, y==0&x>0 ... use a rank
        # rank 0: y<0 ; rank 1: y==0 and x>=0 (angle 0) ; rank 2: y>0 ; rank 3: y==0 and x<0 (pi)
        if self.y < 0:
            return 0
        if self.y > 0:
            return 2
        if self.x < 0:
            return 3
        return 1

    def __lt__(self, o):
        if not isinstance(o, Angle):
            raise Unsupported("Angle compared with number")
        a, b = self._half(), o._half()
        if a != b:
            return a < b
        if a in (1, 3):
            return False
        # same open half plane: angle increases counter-clockwise
        return bool(self.x * o.y - self.y * o.x > 0)

    def __gt__(self, o):
        return o.__lt__(self)

    def __le__(self, o):
        return not o.__lt__(self)

    def __ge__(self, o):
        return not self.__lt__(o)


# ---------------------------------------------------------------- math shim
MATH = types.SimpleNamespace(**{k: getattr(_math, k) for k in dir(_math) if not k.startswith("_")})
MATH.sqrt = s_sqrt
for _n in ("sin", "cos", "tan", "acos", "asin", "atan"):
    setattr(MATH, _n, _trig(_n))


def _m_floor(x):
    if isinstance(x, SymReal):
        return x.__floor__()
    return _math.floor(x)


def _m_ceil(x):
    if isinstance(x, SymReal):
        return x.__ceil__()
    return _math.ceil(x)


def _m_isnan(x):
    if isinstance(x, SymReal):
        return False
    return _math.isnan(x)


def _m_isfinite(x):
    if isinstance(x, SymReal):
        return True
    return _math.isfinite(x)


MATH.floor, MATH.ceil, MATH.isnan, MATH.isfinite = _m_floor, _m_ceil, _m_isnan, _m_isfinite


def _m_fabs(x):
    return builtins.abs(x)


MATH.fabs = _m_fabs


# ---------------------------------------------------------------- patching
def patch_module(mod):
    d = mod.__dict__
    if d.get("np") is _np:
        d["np"] = NP
    if d.get("math") is _math:
        d["math"] = MATH
    d["min"] = s_min
    d["max"] = s_max
    d["any"] = s_any
    d["all"] = s_all
    # `from math import sqrt`-style names; module-level float arrays (constants, workspaces) become object arrays
    # so that they can hold symbolic values too (their sharing between calls is preserved: same object)
    for name, val in list(d.items()):
        if val is _math.sqrt:
            d[name] = s_sqrt
        elif type(val) is _np.ndarray and val.dtype.kind == "f" and not name.startswith("__"):
            d[name] = val.astype(object).view(SArr)


def patch_package(prefix="distance3d"):
    n = 0
    for name, mod in list(sys.modules.items()):
        if mod is not None and (name == prefix or name.startswith(prefix + ".")):
            if ".test" in name:
                continue
            patch_module(mod)
            n += 1
    return n
