"""Worker pool with a hard per-job watchdog (z3's nlsat occasionally ignores
its timeout; such a worker is killed and respawned, the job is recorded as
not explored — never as success)."""
import multiprocessing as mp
import os
import queue
import time
import traceback


def _worker_main(inq, outq, wid):
    os.environ["NUMBA_DISABLE_JIT"] = "1"
    from symx import worker
    while True:
        job = inq.get()
        if job is None:
            return
        try:
            res = worker.explore_job(job)
        except BaseException as e:
            res = {"job": job, "ok": False, "error": "%s: %s" % (type(e).__name__, e), "traceback": traceback.format_exc()}
        outq.put((wid, res))


class Pool:
    def __init__(self, n, hard_limit):
        self.ctx = mp.get_context("spawn")
        self.n = n
        self.hard_limit = hard_limit
        self.outq = self.ctx.Queue()
        self.workers = {}
        for i in range(n):
            self._spawn(i)

    def _spawn(self, i):
        inq = self.ctx.Queue()
        p = self.ctx.Process(target=_worker_main, args=(inq, self.outq, i), daemon=True)
        p.start()
        self.workers[i] = {"p": p, "inq": inq, "job": None, "t0": None}

    def run(self, jobs, handle, deadline, errors):
        it = iter(jobs)
        stats = {"killed": 0, "not_started": 0}
        exhausted = False

        def assign():
            nonlocal exhausted
            for i, w in self.workers.items():
                if w["job"] is None and not exhausted:
                    if time.time() > deadline:
                        exhausted = True
                        break
                    try:
                        j = next(it)
                    except StopIteration:
                        exhausted = True
                        break
                    w["job"] = j
                    w["t0"] = time.time()
                    w["inq"].put(j)
        assign()
        while any(w["job"] is not None for w in self.workers.values()):
            try:
                wid, res = self.outq.get(timeout=0.5)
                self.workers[wid]["job"] = None
                try:
                    handle(res)
                except Exception as e:
                    errors.append({"error": "driver: %r" % e, "traceback": traceback.format_exc()[-1500:]})
            except queue.Empty:
                pass
            now = time.time()
            for i, w in list(self.workers.items()):
                if w["job"] is not None:
                    dead = not w["p"].is_alive()
                    if dead or now - w["t0"] > self.hard_limit(w["job"]):
                        try:
                            w["p"].kill()
                        except Exception:
                            pass
                        stats["killed"] += 1
                        job = w["job"]
                        handle({"job": job, "ok": True, "paths": [], "unexplored": 1, "queries": 0, "solver_s": 0.0,
                                "unknown": 0, "by_kind": {}, "wall_s": now - w["t0"], "describe": {},
                                "killed": "worker killed by the watchdog (%s)" % ("died" if dead else "solver ignored its timeout")})
                        self._spawn(i)
            assign()
        stats["not_started"] = sum(1 for _ in it)
        for w in self.workers.values():
            try:
                w["inq"].put(None)
            except Exception:
                pass
        for w in self.workers.values():
            w["p"].join(timeout=2)
            if w["p"].is_alive():
                w["p"].kill()
        return stats
