"""Process set-up for symbolic exploration of /repo's distance3d:
JIT off (numba's own switch), numba signature contracts recorded and checked
at the Python->kernel boundary, open3d stubbed, module globals rebound."""
import os
import sys
import types

REPO = os.environ.get("VERIF_REPO", "/repo")
_STATE = {"ready": False, "depth": 0, "sigs": {}}


def stub_open3d():
    if "open3d" in sys.modules:
        return
    try:
        import open3d  # noqa: F401
        return
    except Exception:
        pass
    m = types.ModuleType("open3d")

    class _Any:
        def __init__(self, *a, **k):
            pass

        def __getattr__(self, k):
            return _Any()

        def __call__(self, *a, **k):
            return _Any()
    for sub in ("geometry", "utility", "io", "visualization"):
        sm = types.ModuleType("open3d." + sub)
        sm.__getattr__ = lambda k: _Any   # type: ignore
        setattr(m, sub, sm)
        sys.modules["open3d." + sub] = sm
    m.__getattr__ = lambda k: _Any  # type: ignore
    sys.modules["open3d"] = m


class SignatureMismatch(TypeError):
    pass


def _layout_of(a):
    if a.flags.c_contiguous:
        return "C"
    if a.flags.f_contiguous:
        return "F"
    return "A"


def _check_sig(fn_name, sigs, args):
    import numpy as np
    import numba
    errs = []
    for sig in sigs:
        sargs = sig.args if hasattr(sig, "args") else None
        if sargs is None or len(sargs) != len(args):
            continue
        ok = True
        for t, a in zip(sargs, args):
            if isinstance(t, numba.types.Optional):
                if a is None:
                    continue
                t = t.type
            if isinstance(t, numba.types.Array):
                if not isinstance(a, np.ndarray):
                    ok = False
                    errs.append("expected array, got %s" % type(a).__name__)
                    break
                if a.ndim != t.ndim:
                    ok = False
                    errs.append("ndim %d != %d" % (a.ndim, t.ndim))
                    break
                lay = _layout_of(a)
                if t.layout != "A" and lay != t.layout:
                    ok = False
                    errs.append("array(float64, %dd, %s) given, %s required" % (a.ndim, lay, t.layout))
                    break
            elif isinstance(t, (numba.types.Float, numba.types.Integer, numba.types.Boolean)) \
                    and isinstance(a, np.ndarray) and a.ndim > 0:
                ok = False
                errs.append("array given where scalar expected")
                break
        if ok:
            return
    if errs:
        raise SignatureMismatch(
            "No matching definition for argument type(s) in %s: %s" % (fn_name, "; ".join(errs)))


def install_numba_contracts():
    """Replace numba.njit/jit by a decorator that records eager signatures and
    checks array ndim/layout as numba's dispatcher does, for calls that come
    from interpreted code (depth 0).  Calls between kernels are typed
    statically by numba and are not re-checked here."""
    import functools
    import numba

    def make(orig):
        def njit(*dargs, **dkw):
            sigs = []
            fn = None
            for a in dargs:
                if callable(a) and not hasattr(a, "args") and isinstance(a, types.FunctionType):
                    fn = a
                elif isinstance(a, (list, tuple)):
                    sigs.extend(a)
                else:
                    sigs.append(a)

            def deco(f):
                _STATE["sigs"][f.__module__ + "." + f.__name__] = sigs
                if not sigs:
                    @functools.wraps(f)
                    def plain(*a, **k):
                        _STATE["depth"] += 1
                        try:
                            return f(*a, **k)
                        finally:
                            _STATE["depth"] -= 1
                    plain.py_func = f
                    return plain

                @functools.wraps(f)
                def checked(*a, **k):
                    if _STATE["depth"] == 0 and not k:
                        _check_sig(f.__name__, sigs, a)
                    _STATE["depth"] += 1
                    try:
                        return f(*a, **k)
                    finally:
                        _STATE["depth"] -= 1
                checked.py_func = f
                return checked
            if fn is not None:
                return deco(fn)
            return deco
        return njit
    numba.njit = make(numba.njit)
    numba.jit = make(numba.jit)


def setup_symbolic():
    """Idempotent.  After this call distance3d's functions run on symx values."""
    if _STATE["ready"]:
        return
    os.environ["NUMBA_DISABLE_JIT"] = "1"
    if REPO not in sys.path:
        sys.path.insert(0, REPO)
    stub_open3d()
    install_numba_contracts()
    import distance3d  # noqa: F401
    import distance3d.utils, distance3d.geometry, distance3d.colliders, distance3d.mesh  # noqa
    import distance3d.containment, distance3d.containment_test, distance3d.aabb_tree  # noqa
    import distance3d.distance, distance3d.gjk, distance3d.mpr, distance3d.epa  # noqa
    import distance3d.minkowski, distance3d.broad_phase, distance3d.self_collision  # noqa
    try:
        import distance3d.hydroelastic_contact  # noqa
    except Exception as e:  # reported by the harnesses that need it
        _STATE["hydro_import_error"] = repr(e)
    from . import shims
    shims.patch_package("distance3d")
    _STATE["ready"] = True


def setup_concrete(jit=True):
    """Unpatched import of /repo's distance3d for replays (JIT on by default)."""
    if not jit:
        os.environ["NUMBA_DISABLE_JIT"] = "1"
    else:
        os.environ.pop("NUMBA_DISABLE_JIT", None)
    if REPO not in sys.path:
        sys.path.insert(0, REPO)
    stub_open3d()
