"""Harness-side API shared by the symbolic explorer and the concrete replayer.

A scenario describes: parameters (the symbolic reals of the sweep), how the
inputs of the real function are built from them, which real function is
called, and the obligations over inputs/outputs.  All of it is written once,
polymorphically: with SymReal parameters it produces z3 formulas, with float
parameters it produces Python booleans (the replay oracle).
"""
import math as _math
from fractions import Fraction

import numpy as _np

from . import core
from .core import SymReal, SymBool, _Uninit


# ---------------------------------------------------------------- logic / numerics, polymorphic
def _symb(x):
    return isinstance(x, SymBool)


def AND(*xs):
    xs = _flat(xs)
    if any(_symb(x) for x in xs):
        import z3
        return SymBool(z3.And(*[core.liftb(x) for x in xs]))
    return all(bool(x) for x in xs)


def OR(*xs):
    xs = _flat(xs)
    if any(_symb(x) for x in xs):
        import z3
        return SymBool(z3.Or(*[core.liftb(x) for x in xs]))
    return any(bool(x) for x in xs)


def NOT(x):
    if _symb(x):
        return ~x
    return not bool(x)


def IMPLIES(a, b):
    return OR(NOT(a), b)


def _flat(xs):
    out = []
    for x in xs:
        if isinstance(x, (list, tuple)):
            out.extend(_flat(x))
        elif isinstance(x, _np.ndarray):
            out.extend(list(x.flat))
        else:
            out.append(x)
    return out


def ABS(x):
    return abs(x)


def SQRT(x):
    if isinstance(x, SymReal):
        return x.sqrt()
    return _math.sqrt(x) if x >= 0 else float("nan")


def MAX(*xs):
    xs = _flat(xs)
    r = xs[0]
    for x in xs[1:]:
        r = ITE(x > r, x, r)
    return r


def MIN(*xs):
    xs = _flat(xs)
    r = xs[0]
    for x in xs[1:]:
        r = ITE(x < r, x, r)
    return r


def ITE(c, a, b):
    return core.ite(c, a, b)


def DOT(a, b):
    s = 0.0
    for x, y in zip(list(a), list(b)):
        s = s + x * y
    return s


def SUB(a, b):
    return [x - y for x, y in zip(list(a), list(b))]


def ADD(a, b):
    return [x + y for x, y in zip(list(a), list(b))]


def SCALE(k, a):
    return [k * x for x in list(a)]


def CROSS(a, b):
    a, b = list(a), list(b)
    return [a[1] * b[2] - a[2] * b[1], a[2] * b[0] - a[0] * b[2], a[0] * b[1] - a[1] * b[0]]


def NORM2(a):
    return DOT(a, a)


def MATVEC(M, v):
    return [DOT(list(row), v) for row in list(M)]


def close(a, b, tol):
    """|a-b| <= tol"""
    d = a - b
    return AND(d <= tol, -d <= tol)


def vec_close(a, b, tol):
    return AND(*[close(x, y, tol) for x, y in zip(list(a), list(b))])


def vec_eq(a, b):
    return AND(*[x == y for x, y in zip(list(a), list(b))])


def is_symbolic(x):
    return isinstance(x, (SymReal, SymBool))


# ---------------------------------------------------------------- arrays
def mk(x, symbolic):
    """Array of the kind the code under test receives: object SArr in
    symbolic mode, C-contiguous float64 in concrete mode."""
    if symbolic:
        from .shims import oarr
        return oarr(x)
    return _np.ascontiguousarray(_np.array(x, dtype=float))


class Ctx:
    """What a scenario gets: parameter values and an array maker."""

    def __init__(self, P, symbolic, mods=None):
        self.P = P
        self.symbolic = symbolic
        self.mods = mods

    def arr(self, x):
        return mk(x, self.symbolic)

    def __getitem__(self, k):
        return self.P[k]


# ---------------------------------------------------------------- obligations
class Obligations:
    """Collects obligations; decides them with the engine (symbolic mode) or
    evaluates the tolerance variant as booleans (concrete replay)."""

    def __init__(self, eng=None):
        self.eng = eng
        self.items = []       # symbolic: (name, exact, tol)
        self.failed = []      # concrete: names
        self.checked = 0
        self.errors = []

    def require(self, name, exact=None, tol=None):
        if self.eng is not None:
            self.items.append((name, exact, tol))
        else:
            self.checked += 1
            c = tol if tol is not None else exact
            try:
                ok = bool(c)
            except Exception as e:  # nan etc.
                ok = False
                self.errors.append("%s: %r" % (name, e))
            if not ok:
                self.failed.append(name)

    def flush(self):
        if self.eng is not None and self.items:
            self.eng.prove_all(self.items)
            self.items = []


class Scenario:
    """Base class.  Subclasses define:
        prop      property id
        params    list of (name, lo, hi)
        build(cx) -> inputs
        call(cx, inputs) -> outputs           (calls the real code)
        check(cx, inputs, outputs, ob)        (obligations)
    Optional:
        assume(cx) -> list of conditions on the parameters
        expected_exceptions: tuple of exception type names that are legitimate
        max_decisions, timeout_ms, max_paths, budget_s
    """
    prop = None
    params = ()
    expected_exceptions = ()
    max_decisions = 400
    timeout_ms = 10000
    max_paths = 3000
    budget_s = 120
    check_definedness = True

    def assume(self, cx):
        return []

    def build(self, cx):
        raise NotImplementedError

    def call(self, cx, inputs):
        raise NotImplementedError

    def check(self, cx, inputs, outputs, ob):
        raise NotImplementedError

    def describe(self):
        return {}

    def observable(self, outputs):
        """The part of the outputs that is compared between the symbolic run and the
        compiled run at a path witness (drop tie-breaking choices)."""
        return outputs


# ---------------------------------------------------------------- flatten outputs
def flatten(x, out=None):
    """Outputs -> flat list of floats / bools / None (for comparison)."""
    if out is None:
        out = []
    if isinstance(x, _Uninit):
        out.append(None)
    elif isinstance(x, (bool, _np.bool_)):
        out.append(bool(x))
    elif isinstance(x, (int, _np.integer)):
        out.append(int(x))
    elif isinstance(x, (float, _np.floating)):
        out.append(float(x))
    elif isinstance(x, _np.ndarray):
        if x.dtype == object:
            for y in x.flat:
                flatten(y, out)
        else:
            for y in x.flat:
                flatten(y.item(), out)
    elif isinstance(x, (list, tuple)):
        for y in x:
            flatten(y, out)
    elif x is None:
        out.append(None)
    elif isinstance(x, str):
        out.append("s:" + x)
    elif isinstance(x, dict):
        for k in sorted(x):
            flatten(x[k], out)
    else:
        out.append(None)
    return out


def fhex(x):
    return float(x).hex()


def params_to_float(pv):
    """{'t': '1/3'} -> {'t': 0.333..}"""
    return {k: float(Fraction(v)) for k, v in pv.items()}
