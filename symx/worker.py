"""Explorer worker (JIT off, modules patched) and concrete replayer
(unpatched, JIT on or off)."""
import importlib
import json
import math
import os
import signal
import sys
import time
import traceback
from fractions import Fraction

VERIF = os.path.dirname(os.path.dirname(os.path.abspath(__file__)))
if VERIF not in sys.path:
    sys.path.insert(0, VERIF)


# ---------------------------------------------------------------- mutants (self-test only)
def install_mutant_hook():
    spec = os.environ.get("SYMX_MUTANT")
    if not spec:
        return
    mut = json.loads(spec)
    import importlib.machinery
    orig = importlib.machinery.SourceFileLoader.get_data
    target = os.path.join(os.environ.get("VERIF_REPO", "/repo"), mut["file"])

    def get_data(self, path):
        data = orig(self, path)
        if os.path.abspath(path) == os.path.abspath(target):
            src = data.decode()
            if mut["find"] not in src:
                raise RuntimeError("mutant pattern not found in %s" % target)
            src = src.replace(mut["find"], mut["replace"], 1)
            return src.encode()
        return data
    importlib.machinery.SourceFileLoader.get_data = get_data
    sys.dont_write_bytecode = True
    # make sure stale bytecode is not used for the target
    import importlib.util
    orig_cache = importlib.util.cache_from_source

    def no_cache(path, *a, **k):
        if os.path.abspath(path) == os.path.abspath(target):
            return os.path.join("/nonexistent", os.path.basename(path) + "c")
        return orig_cache(path, *a, **k)
    importlib.util.cache_from_source = no_cache
    import importlib._bootstrap_external as be
    be.cache_from_source = no_cache


# ---------------------------------------------------------------- explorer
class _Timeout(BaseException):
    pass


def _alarm(signum, frame):
    from symx.core import PathAbort
    raise PathAbort("budget", "job wall-clock limit")


_INIT = {"done": False}


def init_explorer():
    if _INIT["done"]:
        return
    os.environ["NUMBA_DISABLE_JIT"] = "1"
    install_mutant_hook()
    from symx import runtime
    runtime.setup_symbolic()
    _INIT["done"] = True


def _ser_params(eng, model):
    if model is None:
        return None
    try:
        return {k: str(v) for k, v in eng.param_values(model).items()}
    except Exception:
        return None


def explore_job(job):
    """Runs one scenario symbolically.  Returns a JSON-able dict."""
    t0 = time.time()
    try:
        init_explorer()
        from symx import core, harness as hz
        H = importlib.import_module("harness." + job["harness"])
        sc = H.make(job["family"], job["args"])
        tier = job.get("tier", "quick")
        budget = (job.get("budget_s") or sc.budget_s) * float(os.environ.get("VERIF_BUDGET_SCALE", "1"))
        eng = core.Engine(timeout_ms=sc.timeout_ms, max_decisions=sc.max_decisions,
                          max_paths=sc.max_paths, budget_s=budget,
                          check_definedness=sc.check_definedness)
        core.ENGINE = eng
        P = {}
        for spec in sc.params:
            n, lo, hi = spec
            P[n] = eng.param(n, lo, hi)
        cx0 = hz.Ctx(P, True)
        for c in sc.assume(cx0):
            eng.assume(c)

        def run(e):
            cx = hz.Ctx(P, True)
            inputs = sc.build(cx)
            outputs = sc.call(cx, inputs)
            ob = hz.Obligations(e)
            sc.check(cx, inputs, outputs, ob)
            ob.flush()
            return outputs

        paths = []
        cov = None
        if os.environ.get("SYMX_COVERAGE"):
            import sys as _sys
            cov = set()
            root = os.environ.get("VERIF_REPO", "/repo") + "/distance3d/"

            def tracer(frame, event, arg):
                fn = frame.f_code.co_filename
                if not fn.startswith(root):
                    return None
                if event == "line":
                    cov.add((fn[len(root):], frame.f_lineno))
                return tracer
            _sys.settrace(tracer)
        signal.signal(signal.SIGALRM, _alarm)
        gen = eng.explore(run)
        while True:
            signal.setitimer(signal.ITIMER_REAL, max(5.0, budget * 1.5))
            try:
                rec = next(gen)
            except StopIteration:
                break
            finally:
                signal.setitimer(signal.ITIMER_REAL, 0)
            out = {"status": rec["status"], "msg": rec.get("msg"), "decisions": rec["decisions"],
                   "trace": rec["trace"][:200], "inconclusive": rec["inconclusive"],
                   "exc_type": rec.get("exc_type"), "notes": rec["notes"]}
            need_w = rec["status"] in ("ok", "exception", "bound-exceeded")
            m = None
            if need_w:
                try:
                    m = eng.witness()
                except core.PathAbort:
                    m = None
            out["witness"] = _ser_params(eng, m)
            if m is not None and rec["status"] == "ok":
                try:
                    ev = eng.eval_float(sc.observable(rec["result"]), m)
                    out["outputs"] = hz.flatten(ev)
                except Exception as e:
                    out["outputs"] = None
                    out["eval_error"] = repr(e)
            obl = []
            for o in rec["obligs"]:
                obl.append({"name": o["name"], "status": o["status"], "how": o["how"],
                            "params": _ser_params(eng, o["model"])})
            out["obligs"] = obl
            fnd = []
            if rec["status"] == "bound-exceeded":
                rec["findings"].append({"kind": "bound-exceeded", "detail": rec.get("msg") or "", "model": m})
            for f in rec["findings"]:
                mm = f["model"] if f["model"] is not None else m
                fnd.append({"kind": f["kind"], "detail": f["detail"], "params": _ser_params(eng, mm)})
            out["findings"] = fnd
            paths.append(out)
        st = eng.stats
        if cov is not None:
            import sys as _sys
            _sys.settrace(None)
            with open("/tmp/symx_cov_%d.txt" % os.getpid(), "a") as f:
                for fn, ln in cov:
                    f.write("%s:%d\n" % (fn, ln))
        return {"job": job, "ok": True, "paths": paths, "unexplored": eng.unexplored,
                "queries": st.queries, "solver_s": st.solver_s, "unknown": st.unknown,
                "by_kind": st.by_kind, "wall_s": time.time() - t0,
                "defined_checked": st.defined_checked, "defined_discharged": st.defined_discharged,
                "describe": sc.describe()}
    except BaseException as e:  # harness / engine error
        return {"job": job, "ok": False, "error": "%s: %s" % (type(e).__name__, e),
                "traceback": traceback.format_exc(), "wall_s": time.time() - t0}


# ---------------------------------------------------------------- concrete replay
def _finite(xs):
    for x in xs:
        if isinstance(x, float) and not math.isfinite(x):
            return False
    return True


def replay_once(req):
    """Concrete run of a scenario at float parameter values on the unpatched code."""
    from symx import harness as hz
    H = importlib.import_module("harness." + req["harness"])
    sc = H.make(req["family"], req["args"])
    P = {k: float.fromhex(v) if isinstance(v, str) else float(v) for k, v in req["params"].items()}
    cx = hz.Ctx(P, False)
    res = {"exception": None, "outputs": None, "failed": [], "checked": 0, "nonfinite": False}
    try:
        inputs = sc.build(cx)
    except Exception as e:
        res["exception"] = "build:%s: %s" % (type(e).__name__, e)
        return res
    try:
        outputs = sc.call(cx, inputs)
    except Exception as e:
        res["exception"] = "%s: %s" % (type(e).__name__, e)
        res["exc_type"] = type(e).__name__
        res["expected_exception"] = type(e).__name__ in sc.expected_exceptions
        return res
    flat = hz.flatten(sc.observable(outputs))
    res["outputs"] = [None if x is None else (x if isinstance(x, (bool, int, str)) else float(x).hex()) for x in flat]
    res["nonfinite"] = not _finite(flat)
    ob = hz.Obligations(None)
    try:
        sc.check(cx, inputs, outputs, ob)
    except Exception as e:
        res["check_error"] = "%s: %s" % (type(e).__name__, e)
    res["failed"] = ob.failed
    res["checked"] = ob.checked
    return res


def replayer_main():
    mode = sys.argv[1] if len(sys.argv) > 1 else "jit"
    install_mutant_hook()
    from symx import runtime
    runtime.setup_concrete(jit=(mode == "jit"))
    out = sys.stdout
    sys.stdout = sys.stderr   # library prints must not corrupt the protocol
    out.write(json.dumps({"ready": mode}) + "\n")
    out.flush()
    for line in sys.stdin:
        line = line.strip()
        if not line:
            continue
        req = json.loads(line)
        try:
            res = replay_once(req)
        except BaseException as e:
            res = {"harness_error": "%s: %s" % (type(e).__name__, e), "traceback": traceback.format_exc()}
        out.write(json.dumps(res) + "\n")
        out.flush()


if __name__ == "__main__":
    replayer_main()
