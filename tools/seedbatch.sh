#!/bin/sh
# tools/seedbatch.sh "C05:1 C05:2 ..."   -> runs ./check PROP with VERIF_REPO=<patched worktree>, logs to /tmp/seedlog/
mkdir -p /tmp/seedlog
for item in $1; do
  P=${item%%:*}; K=${item##*:}; WT=/tmp/wt_$P
  (cd $WT && git checkout -q -- . && git apply _seed/patch$K.diff) || { echo "$item: patch failed" >> /tmp/seedlog/summary.txt; continue; }
  (cd /verif && VERIF_OUT=/tmp/seedout VERIF_REPO=$WT ./check $P > /tmp/seedlog/${P}_$K.log 2>&1; echo "$item rc=$? $(grep -c '^VIOLATION' /tmp/seedlog/${P}_$K.log) violations; $(tail -1 /tmp/seedlog/${P}_$K.log | cut -c1-200)" >> /tmp/seedlog/summary.txt)
  (cd $WT && git checkout -q -- .)
done
echo "batch done: $1" >> /tmp/seedlog/summary.txt
