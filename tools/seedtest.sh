#!/bin/sh
# tools/seedtest.sh <PROP> <worktree> <k> [check args...]  : confirm demo on worktree, then run ./check PROP against /repo with the patch applied
P=$1; WT=$2; K=$3; shift 3
PATCH=$WT/_seed/patch$K.diff
echo "== demo on pristine worktree"; (cd $WT && git checkout -q -- . && timeout 900 /venv/bin/python _seed/demo$K.py 2>&1 | tail -3; echo "exit=$?")
echo "== demo on patched worktree"; (cd $WT && git apply _seed/patch$K.diff && timeout 900 /venv/bin/python _seed/demo$K.py 2>&1 | tail -4; echo "exit=$?"; git checkout -q -- .)
echo "== check on patched /repo"
git -C /repo apply $PATCH || exit 3
(cd /verif && ./check $P "$@" 2>&1 | grep -E "^VIOLATION|^KNOWN|^HARNESS|^$P |^note" | cut -c1-400 | head -12)
git -C /repo checkout -- .
git -C /repo status --short | head -3
