#!/bin/sh
# tools/seedconfirm.sh "C05:1 ..." : confirm demo (pristine PASS / patched FAIL) and the pinned suite with the patch, in the seed's scratch worktree
for item in $1; do
  P=${item%%:*}; K=${item##*:}; WT=/tmp/wt_$P; D=/verif/seeded/${P}_${K}${SEED_SUFFIX}
  mkdir -p $D; cp $WT/_seed/patch$K.diff $D/patch.diff; cp $WT/_seed/demo$K.py $D/demo.py; cp $WT/_seed/notes$K.md $D/notes.md
  L=$D/confirm.log; : > $L
  (cd $WT && git checkout -q -- .
   echo "## demo on pristine worktree" >> $L; timeout 1200 /venv/bin/python _seed/demo$K.py > /tmp/sc_out.txt 2>&1; echo "exit=$?" >> $L; tail -3 /tmp/sc_out.txt >> $L
   git apply _seed/patch$K.diff
   echo "## demo with patch" >> $L; timeout 1200 /venv/bin/python _seed/demo$K.py > /tmp/sc_out.txt 2>&1; echo "exit=$?" >> $L; tail -4 /tmp/sc_out.txt | cut -c1-300 >> $L
   echo "## pinned suite with patch (junit compared with BASELINE stable_pass)" >> $L
   /venv/bin/python -m pytest -q -p no:cacheprovider --timeout=900 --continue-on-collection-errors --junitxml=/tmp/sc_junit.xml distance3d/test > /tmp/sc_out.txt 2>&1; tail -1 /tmp/sc_out.txt >> $L
   /venv/bin/python - >> $L <<'PY'
import json, xml.etree.ElementTree as ET
b=json.load(open('/root/.vp/BASELINE.json'))
res={}
for tc in ET.parse('/tmp/sc_junit.xml').iter('testcase'):
    res[tc.get('classname')+'::'+tc.get('name')] = not any(c.tag in('failure','error','skipped') for c in tc)
miss=[n for n in b['stable_pass'] if not res.get(n)]
print("stable_pass tests not passing with the patch:", miss)
PY
   git checkout -q -- .)
  echo "$item confirmed: $(grep -c . $L) lines" >> /tmp/seedlog/confirm_summary.txt
done
