#!/usr/bin/env python3
"""Development-time cross-check of the solver: re-decides dumped queries (SYMX_DUMP=<dir> ./check ...) with
other solvers - the cvc5 binary for the linear ones, the old z3 4.8.12 binary for all - and compares the
verdicts with what z3 5.1 answered during the run.  Usage: tools/crosscheck.py <dir>"""
import glob, os, subprocess, sys, collections
d = sys.argv[1]
stats = collections.Counter()
bad = []
for f in sorted(glob.glob(os.path.join(d, "*.smt2"))):
    base = os.path.basename(f)[:-5]
    parts = base.split("_")
    kind, want = parts[-2], parts[-1]
    if want == "unknown":
        stats["skipped_unknown"] += 1
        continue
    for name, cmd in (("cvc5", ["cvc5", "--tlimit=20000", f]), ("z3-4.8.12", ["/usr/bin/z3", "-T:20", f])):
        if name == "cvc5" and kind == "nra":
            continue       # the cvc5 binary here has no libpoly: nonlinear real arithmetic is not worth asking
        try:
            out = subprocess.run(cmd, capture_output=True, text=True, timeout=40).stdout.strip().splitlines()
            got = out[0] if out else "error"
        except subprocess.TimeoutExpired:
            got = "timeout"
        if "(error" in " ".join(out) if out else False:
            got = "error"
        if got in ("sat", "unsat"):
            stats[name + (":agree" if got == want else ":DISAGREE")] += 1
            if got != want:
                bad.append((name, f, want, got))
        else:
            stats[name + ":inconclusive(" + got.split()[0][:12] + ")"] += 1
print(dict(stats))
for b in bad[:10]:
    print("DISAGREE", b)
sys.exit(1 if bad else 0)
