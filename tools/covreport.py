#!/usr/bin/env python3
"""Line coverage of /repo/distance3d files by the symbolic exploration (SYMX_COVERAGE=1 run): lists uncovered executable lines per function."""
import ast, glob, sys, collections
cov = collections.defaultdict(set)
for f in glob.glob("/tmp/symx_cov_*.txt"):
    for l in open(f):
        fn, ln = l.strip().rsplit(":", 1)
        cov[fn].add(int(ln))
pat = sys.argv[1] if len(sys.argv) > 1 else "distance/"
for fn in sorted(cov):
    if pat not in fn:
        continue
    src = open("/repo/distance3d/" + fn).read()
    tree = ast.parse(src)
    for node in ast.walk(tree):
        if isinstance(node, ast.FunctionDef):
            lines = set()
            for sub in ast.walk(node):
                if isinstance(sub, ast.stmt) and not isinstance(sub, (ast.FunctionDef,)):
                    if isinstance(sub, ast.Expr) and isinstance(getattr(sub, "value", None), ast.Constant):
                        continue
                    lines.add(sub.lineno)
            lines.discard(node.lineno)
            miss = sorted(lines - cov[fn])
            if lines and miss and (lines & cov[fn]):
                print("%s:%s  %d/%d lines uncovered: %s" % (fn, node.name, len(miss), len(lines), miss[:40]))
            elif lines and not (lines & cov[fn]):
                print("%s:%s  NEVER EXECUTED (%d lines)" % (fn, node.name, len(lines)))
