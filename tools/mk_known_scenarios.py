#!/usr/bin/env python3
"""Development-time helper: turns the VIOLATION replays of the last run of a property into scenario-specific
known-finding entries (family + exact sweep + obligation class).  Never used by the checks themselves."""
import json, glob, re, sys
prop, kid, what_rx, desc = sys.argv[1], sys.argv[2], sys.argv[3], sys.argv[4]
k = json.load(open('/verif/known_findings.json'))
seen = set((f['match'].get('family'), f['match'].get('args', {}).get('sweep')) for f in k['findings'] if f.get('id', '').startswith(kid))
n = sum(1 for f in k['findings'] if f.get('id', '').startswith(kid))
for path in sorted(glob.glob('/verif/replays/%s_*_*.json' % prop)):
    r = json.load(open(path))
    if not re.search(what_rx, r['what']):
        continue
    fam = '^' + re.escape(r['family']) + '$'
    sw = '^' + re.escape(json.dumps(r['args']['sweep'])) + '$'
    if (fam, sw) in seen:
        continue
    seen.add((fam, sw))
    n += 1
    k['findings'].append({"id": "%s.%d" % (kid, n), "property": prop, "status": "known",
                          "match": {"family": fam, "what": what_rx, "args": {"sweep": sw}},
                          "description": desc + " [scenario %s, sweep %s, first seen at t=%s]" % (r['family'], json.dumps(r['args']['sweep']), r['params'].get('t'))})
json.dump(k, open('/verif/known_findings.json', 'w'), indent=1)
print(n, "entries")
