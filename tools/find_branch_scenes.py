#!/usr/bin/env python3
"""Development-time helper (never used by the checks): finds exactly representable box/box placements whose
Nesterov run executes rarely taken lines of project_tetra_to_origin / project_triangle_origin, by concrete random
search over the corpus' orientations and a dyadic translation grid, and writes a small greedy cover to
/verif/corpus/branch_scenes.json.  The checks then run *symbolic sweeps through* these placements."""
import itertools
import json
import os
import random
import sys

os.environ["NUMBA_DISABLE_JIT"] = "1"
sys.path.insert(0, "/verif")
sys.path.insert(0, "/repo")
from symx import runtime
runtime.stub_open3d()
import numpy as np
from distance3d import colliders
import distance3d.gjk._gjk_nesterov_accelerated_primitives as NP_
import distance3d.gjk._gjk_nesterov_accelerated as NG_
from oracles import prims as PR
from harness.coll_common import R0

TARGETS = {}
for mod in (NP_, NG_):
    for fn in ("project_tetra_to_origin", "project_triangle_origin", "project_line_origin"):
        f = getattr(mod, fn)
        f = getattr(f, "py_func", f)
        code = f.__code__
        TARGETS[(code.co_filename, fn)] = code

hits = set()


def tracer(frame, event, arg):
    code = frame.f_code
    key = (code.co_filename, code.co_name)
    if key not in TARGETS:
        return None
    if event == "line":
        hits.add((os.path.basename(code.co_filename), code.co_name, frame.f_lineno))
    return tracer


ROTS = [PR.IDENT[0], PR.RZ345, PR.RX51213, PR.RGEN] + [R0[i] for i in (7, 13, 18)]
ROTS += [PR.matmul3(PR.RZ345, PR.RX51213), PR.matmul3(PR.RGEN, PR.RZ345)]
SIZES = [[1.0, 1.0, 1.0], [1.0, 0.5, 2.0], [2.0, 2.0, 2.0], [1.0, 2.0, 3.0]]
GRID = [k / 8.0 for k in range(-24, 25)]


def run(scene, module):
    global hits
    hits = set()
    A = np.eye(4)
    a = colliders.Box(A, np.array(scene["sa"]))
    B = np.eye(4)
    B[:3, :3] = np.array(ROTS[scene["r"]])
    B[:3, 3] = scene["t"]
    b = colliders.Box(B, np.array(scene["sb"]))
    f = NP_.gjk_nesterov_accelerated_primitives if module == "prim" else NG_.gjk_nesterov_accelerated
    sys.settrace(tracer)
    try:
        if scene["swap"]:
            f(b, a)
        else:
            f(a, b)
    except Exception:
        pass
    finally:
        sys.settrace(None)
    return set(hits)


def main():
    rnd = random.Random(int(sys.argv[1]) if len(sys.argv) > 1 else 0)
    n = int(sys.argv[2]) if len(sys.argv) > 2 else 4000
    pool = []
    covered = set()
    for i in range(n):
        scene = {"sa": rnd.choice(SIZES), "sb": rnd.choice(SIZES), "r": rnd.randrange(len(ROTS)),
                 "t": [rnd.choice(GRID) for _ in range(3)], "swap": rnd.random() < 0.5}
        for module in ("prim", "generic"):
            h = run(scene, module)
            new = h - covered
            if new:
                pool.append((dict(scene, module=module), h))
                covered |= h
    # greedy cover
    chosen, cov = [], set()
    while True:
        best = max(pool, key=lambda p: len(p[1] - cov), default=None)
        if best is None or not (best[1] - cov):
            break
        chosen.append(best[0])
        cov |= best[1]
        if len(chosen) >= 60:
            break
    os.makedirs("/verif/corpus", exist_ok=True)
    out = []
    for sc in chosen:
        sc = dict(sc)
        sc["R"] = [list(map(float, row)) for row in ROTS[sc.pop("r")]]
        out.append(sc)
    json.dump({"comment": "placements found by tools/find_branch_scenes.py (concrete search, development time); the checks sweep through them symbolically",
               "lines_covered": len(cov), "scenes": out}, open("/verif/corpus/branch_scenes.json", "w"), indent=1)
    print("scenes", len(out), "lines covered", len(cov))


if __name__ == "__main__":
    main()
