#!/bin/sh
# runs every claimed quick check sequentially; summary in /tmp/runall.txt
: > /tmp/runall.txt
for P in C01 C02 C03 C04 C05 C06 C07 C08 C09 C10 C11 C12 C13 C14 C15 C16 C17 C18 C19 C20; do
  S=$(date +%s); ./check $P --tier ${1:-quick} > /tmp/runall_$P.log 2>&1; RC=$?; E=$(date +%s)
  echo "$P rc=$RC $((E-S))s $(grep -c '^VIOLATION' /tmp/runall_$P.log) viol $(grep -c '^KNOWN' /tmp/runall_$P.log) known :: $(tail -1 /tmp/runall_$P.log | cut -c1-260)" >> /tmp/runall.txt
done
echo done >> /tmp/runall.txt
